package main

// C11 / C18: random histories of API calls over a growing pool of items and messages with sharing; after
// every call the arguments and every returned slice are scribbled over, and every live object is observed again.

import (
	"crypto/sha1"
	"encoding/hex"
	"encoding/json"
	"fmt"
	"strings"

	"github.com/wolimst/lib-secs2-hsms-go/pkg/ast"
	"github.com/wolimst/lib-secs2-hsms-go/pkg/parser/hsms"
)

func init() { drivers["hist"] = driverHist }

type hobj struct {
	item ast.ItemNode
	msg  *ast.DataMessage
	ctrl ast.HSMSMessage
}

func (o hobj) observe() J {
	if o.ctrl != nil {
		h, _ := ast.VerifControlHeader(o.ctrl)
		return J{"bytes": bytesJ(o.ctrl.ToBytes()), "type": typeOfMsg(o.ctrl), "hdr": bytesJ(h)}
	}
	if o.msg != nil {
		r := observeMsg(o.msg)
		r["hdr"] = []interface{}{o.msg.Name(), o.msg.StreamCode(), o.msg.FunctionCode(), o.msg.WaitBit(), o.msg.Direction(),
			o.msg.SessionID(), bytesJ(o.msg.SystemBytes()), o.msg.Type()}
		return r
	}
	return observe(o.item)
}

// cyclic: does a list (reachable from this item) contain itself?  No constructor makes such a thing; an operation that
// writes into an existing list can. Every observer would recurse for ever on it (Go's fatal stack overflow), so it is
// looked for first, by pointer identity, and reported as the object's state.
func cyclic(it ast.ItemNode) bool {
	const grey, black = 1, 2
	colour := map[*ast.ListNode]int{}
	type frame struct {
		l    *ast.ListNode
		kids []ast.ItemNode
		next int
	}
	root, ok := it.(*ast.ListNode)
	if !ok || root == nil {
		return false
	}
	stack := []frame{{root, ast.VerifChildren(root), 0}}
	colour[root] = grey
	for len(stack) > 0 {
		f := &stack[len(stack)-1]
		if f.next == len(f.kids) {
			colour[f.l] = black
			stack = stack[:len(stack)-1]
			continue
		}
		k := f.kids[f.next]
		f.next++
		if l, ok := k.(*ast.ListNode); ok && l != nil {
			switch colour[l] {
			case grey:
				return true
			case 0:
				colour[l] = grey
				stack = append(stack, frame{l, ast.VerifChildren(l), 0})
			}
		}
	}
	return false
}

func (o hobj) cyclic() bool {
	if o.msg != nil {
		return cyclic(ast.VerifDataItem(o.msg))
	}
	return o.item != nil && cyclic(o.item)
}

func (o hobj) digest() string {
	if o.cyclic() {
		return "a list that contains itself"
	}
	b, _ := json.Marshal(o.observe())
	h := sha1.Sum(b)
	return hex.EncodeToString(h[:8])
}

func (o hobj) abs() J {
	if o.cyclic() {
		return J{"kind": "item", "abs": J{"f": "none"}, "cycle": true}
	}
	if o.ctrl != nil {
		h, _ := ast.VerifControlHeader(o.ctrl)
		return J{"kind": "ctrl", "abs": J{"hdr": bytesJ(h)}}
	}
	if o.msg != nil {
		// (what the message encodes to is part of what a producer hands over: judged against the fields by C18)
		return J{"kind": "msg", "abs": projMsg(o.msg), "bytes": bytesJ(o.msg.ToBytes())}
	}
	return J{"kind": "item", "abs": projItem(o.item)}
}

func scribbleBytes(b []byte) {
	for i := range b {
		b[i] ^= 0xA5
	}
}

func scribbleNames(v []string) {
	for i := range v {
		v[i] = "hacked"
	}
}

type fillArgs struct {
	l0, x, n int
	a, c     string
	plain    bool // no item goes in: the repeat count and a value for a variable of a nested list behind the repeat marker
	again    int  // the same template filled once more afterwards (another count, another value)
}

type sessArgs struct {
	id, sid int
	sys     []byte
}

func driverHist(c *Ctx) {
	steps := 40
	if c.Tier == "thorough" {
		steps = 120
	}
	for i := 0; i < c.N; i++ {
		if !c.want(i) {
			continue
		}
		g := c.gen(i)
		g.MaxKids, g.MaxVals = 3, 3
		g.Ladder, g.LadderTo = 40, 65
		var objs []hobj
		var script []func() ([]interface{}, []interface{})
		var pendingSess []sessArgs
		var pendingFill *fillArgs
		c.emit(i, J{"ev": "reset"})
		items := func() []int {
			var r []int
			for k, o := range objs {
				if o.item != nil {
					r = append(r, k)
				}
			}
			return r
		}
		msgs := func() []int {
			var r []int
			for k, o := range objs {
				if o.msg != nil {
					r = append(r, k)
				}
			}
			return r
		}
		for st := 0; st < steps; st++ {
			op := J{}
			res := J{"outcome": "none"}
			newdig := "" // what a new object looks like before the caller touches the arguments again
			addItem := func(f func() ast.ItemNode) {
				var it ast.ItemNode
				if p, _ := try(func() { it = f() }); p {
					res = J{"outcome": "refused"}
					return
				}
				objs = append(objs, hobj{item: it})
				res = objs[len(objs)-1].abs()
				res["outcome"] = "new"
				newdig = objs[len(objs)-1].digest()
			}
			addMsg := func(f func() *ast.DataMessage, from int) {
				var m *ast.DataMessage
				if p, _ := try(func() { m = f() }); p {
					res = J{"outcome": "refused"}
					return
				}
				if from >= 0 && m == objs[from].msg {
					res = objs[from].abs()
					res["outcome"] = "same"
					return
				}
				objs = append(objs, hobj{msg: m})
				res = objs[len(objs)-1].abs()
				res["outcome"] = "new"
				newdig = objs[len(objs)-1].digest()
			}
			its, ms := items(), msgs()
			kind := g.pick(16)
			switch {
			case kind == 14:
				// a control message from a caller-owned header slice (exactly 10 bytes, and longer / shorter ones)
				h := make([]byte, []int{10, 10, 10, 4, 0}[g.pick(5)])
				g.r.Read(h)
				if len(h) == 10 {
					h[4], h[5] = 0, []byte{1, 2, 3, 4, 5, 6, 7, 9}[g.pick(8)]
				}
				op = J{"k": "newctrl", "hdr": bytesJ(h)}
				var m ast.HSMSMessage
				if p, _ := try(func() { m = ast.NewHSMSControlMessage(h) }); p {
					res = J{"outcome": "refused"}
				} else {
					objs = append(objs, hobj{ctrl: m})
					res = objs[len(objs)-1].abs()
					res["outcome"] = "new"
					newdig = objs[len(objs)-1].digest()
				}
				scribbleBytes(h)
			case kind == 15:
				// a control message decoded from a receive buffer that is reused afterwards
				h := make([]byte, 10)
				g.r.Read(h)
				h[4], h[5] = 0, []byte{1, 2, 3, 4, 5, 6, 7, 9}[g.pick(8)]
				buf := append([]byte{0, 0, 0, 10}, h...)
				op = J{"k": "decodectrl", "hdr": bytesJ(h)}
				m, ok := hsms.Parse(buf)
				if !ok || m == nil {
					res = J{"outcome": "refused"}
				} else {
					objs = append(objs, hobj{ctrl: m})
					res = objs[len(objs)-1].abs()
					res["outcome"] = "new"
					newdig = objs[len(objs)-1].digest()
				}
				scribbleBytes(buf)
			case kind == 0 || len(its) == 0:
				t := g.tree(g.pick(2), g.pick(2) == 0)
				if g.pick(10) == 0 {
					// a text of more than a page: messages on it are large enough for whatever is kept per large message
					t = &GItem{F: "L", Kids: []*GItem{{F: "A", Str: strings.Repeat("0123456789abcdef", 260+g.pick(40))}, {F: "U1", Vals: []interface{}{uint64(g.pick(256))}}}}
				}
				if g.pick(6) == 0 {
					// a wide list - 63, 64, 65 ... direct items - of constants with a few variables of its own
					n := []int{31, 32, 33, 63, 64, 65, 127, 128, 129}[g.pick(9)]
					t = &GItem{F: "L"}
					for k := 0; k < n; k++ {
						if k%29 == 7 {
							t.Kids = append(t.Kids, &GItem{F: "", Var: g.newVar()})
						} else {
							t.Kids = append(t.Kids, &GItem{F: "U1", Vals: []interface{}{uint64(k % 256)}})
						}
					}
				}
				op = J{"k": "newitem"}
				addItem(func() ast.ItemNode { return t.Build() })
			case len(pendingSess) > 0:
				// the second half of a scripted pair: the message just stamped is stamped again with the same session id
				// and its system bytes written another way (leading zeros dropped, cut short, zero-extended)
				ps := pendingSess[0]
				pendingSess = pendingSess[1:]
				op = J{"k": "setsession", "id": ps.id + 1, "sid": ps.sid, "sys": bytesJ(ps.sys)}
				addMsg(func() *ast.DataMessage { return objs[ps.id].msg.SetSessionIDAndSystemBytes(ps.sid, ps.sys) }, -1)
			case len(script) == 0 && pendingFill != nil:
				// last step of the scripted pattern below: the repeat count, the item for the list's variable, and a value
				// for a variable *inside that item* in one call - the item stays the caller's
				pf := pendingFill
				pendingFill = nil
				if pf.plain && pf.l0 < len(objs) && objs[pf.l0].item != nil {
					val := 7 + pf.again
					sig := map[string]interface{}{"...": pf.n, pf.c: val}
					sj := []interface{}{J{"k": chars(pf.c), "v": intJ(int64(val))}}
					op = J{"k": "fillitem", "id": pf.l0 + 1, "sigma": sj, "cnt": []interface{}{J{"k": chars("..."), "n": pf.n}}}
					addItem(func() ast.ItemNode { return objs[pf.l0].item.FillVariables(sig) })
					if pf.again < 1 {
						pendingFill = &fillArgs{l0: pf.l0, c: pf.c, n: (pf.n + 1) % 3, plain: true, again: pf.again + 1}
					}
				} else if pf.plain {
					op = J{"k": "observeitem", "id": 1}
				} else if pf.l0 < len(objs) && pf.x < len(objs) && objs[pf.l0].item != nil && objs[pf.x].item != nil {
					sig := map[string]interface{}{"...": pf.n, pf.a: objs[pf.x].item, pf.c: 7}
					sj := []interface{}{J{"k": chars(pf.a), "v": projItem(objs[pf.x].item)}, J{"k": chars(pf.c), "v": intJ(7)}}
					op = J{"k": "fillitem", "id": pf.l0 + 1, "sigma": sj, "cnt": []interface{}{J{"k": chars("..."), "n": pf.n}}}
					addItem(func() ast.ItemNode { return objs[pf.l0].item.FillVariables(sig) })
				} else {
					op = J{"k": "observeitem", "id": 1}
				}
			case len(script) > 0:
				// the next step of a scripted sharing pattern (see below)
				args, desc := script[0]()
				script = script[1:]
				op = J{"k": "newlist", "args": desc}
				addItem(func() ast.ItemNode { return ast.NewListNode(args...) })
			case kind == 2 && g.pick(5) == 0:
				// scripted: M = <L <U1 c>>, X = <L M <B 1>>, L0 = <L a ... b>, then L0 filled with {...: n, a: X, c: 7}
				a, b, cn := g.newVar(), g.newVar(), g.newVar()
				op = J{"k": "newitem"}
				addItem(func() ast.ItemNode { return ast.NewUintNode(1, cn) })
				if res["outcome"] == "new" {
					ui := len(objs) - 1
					mi := ui + 1
					script = append(script, func() ([]interface{}, []interface{}) {
						return []interface{}{objs[ui].item}, []interface{}{J{"id": ui + 1}}
					})
					script = append(script, func() ([]interface{}, []interface{}) {
						return []interface{}{objs[mi].item, cn + "x"}, []interface{}{J{"id": mi + 1}, J{"var": chars(cn + "x")}}
					})
					script = append(script, func() ([]interface{}, []interface{}) {
						return []interface{}{a, "...", b}, []interface{}{J{"var": chars(a)}, J{"ell": -1}, J{"var": chars(b)}}
					})
					pendingFill = &fillArgs{l0: mi + 2, x: mi + 1, a: a, c: cn, n: g.pick(3)}
					_ = b
				}
			case kind == 2 && g.pick(6) == 0:
				// scripted: U = <U1 d>, M = <L U e>, L0 = <L a ... M>, then L0 filled with {...: n, d: 7} - an ellipsis and a
				// variable of the nested list *behind* it in one call - and once more with another count and value
				a, d, e := g.newVar(), g.newVar(), g.newVar()
				op = J{"k": "newitem"}
				addItem(func() ast.ItemNode { return ast.NewUintNode(1, d) })
				if res["outcome"] == "new" {
					ui := len(objs) - 1
					mi := ui + 1
					script = append(script, func() ([]interface{}, []interface{}) {
						return []interface{}{objs[ui].item, e}, []interface{}{J{"id": ui + 1}, J{"var": chars(e)}}
					})
					script = append(script, func() ([]interface{}, []interface{}) {
						return []interface{}{a, "...", objs[mi].item}, []interface{}{J{"var": chars(a)}, J{"ell": -1}, J{"id": mi + 1}}
					})
					pendingFill = &fillArgs{l0: mi + 1, c: d, n: 1 + g.pick(2), plain: true}
				}
			case kind == 1 && g.pick(3) == 0:
				// one list of k fresh variables that becomes the first element of two further lists, each with
				// variables of its own behind it: what the second list is built from must not show in the first
				k := []int{1, 2, 3, 3, 5, 6, 7}[g.pick(7)]
				args := make([]interface{}, 0, k)
				desc := []interface{}{}
				for j := 0; j < k; j++ {
					name := g.newVar()
					args = append(args, name)
					desc = append(desc, J{"var": chars(name)})
				}
				op = J{"k": "newlist", "args": desc}
				addItem(func() ast.ItemNode { return ast.NewListNode(args...) })
				if res["outcome"] == "new" {
					common := len(objs) - 1
					for j := 0; j < 2; j++ {
						script = append(script, func() ([]interface{}, []interface{}) {
							a := []interface{}{objs[common].item}
							d := []interface{}{J{"id": common + 1}}
							for n := 1 + g.pick(2); n > 0; n-- {
								name := g.newVar()
								a = append(a, name)
								d = append(d, J{"var": chars(name)})
							}
							return a, d
						})
					}
				}
			case kind == 1:
				// a list sharing existing items (possibly the same one twice) and fresh variables
				n := g.pick(4)
				args := make([]interface{}, 0, n)
				desc := []interface{}{}
				for k := 0; k < n; k++ {
					if g.pick(4) == 0 {
						name := g.newVar()
						args = append(args, name)
						desc = append(desc, J{"var": chars(name)})
					} else {
						id := its[g.pick(len(its))]
						args = append(args, objs[id].item)
						desc = append(desc, J{"id": id + 1})
					}
				}
				if len(args) >= 1 && g.pick(3) == 0 {
					// a repeat marker behind the first item or later
					pos := 1 + g.pick(len(args))
					args = append(args[:pos], append([]interface{}{"..."}, args[pos:]...)...)
					desc = append(desc[:pos], append([]interface{}{J{"ell": -1}}, desc[pos:]...)...)
				}
				op = J{"k": "newlist", "args": desc}
				addItem(func() ast.ItemNode { return ast.NewListNode(args...) })
				for k := range args {
					args[k] = "scribbled" // the variadic slice belongs to the caller
				}
			case kind == 2:
				id := its[g.pick(len(its))]
				sig, sj := histSigma(g, objs[id].item.Variables(), objs[id].item)
				cj := histRich(g, objs, its, objs[id].item, sig, &sj)
				op = J{"k": "fillitem", "id": id + 1, "sigma": sj, "cnt": cj}
				addItem(func() ast.ItemNode { return objs[id].item.FillVariables(sig) })
				for k := range sig {
					sig[k] = 77
				}
				sig["extra"] = 1
			case kind == 3:
				id := its[g.pick(len(its))]
				op = J{"k": "observeitem", "id": id + 1}
				scribbleBytes(objs[id].item.ToBytes())
				scribbleNames(objs[id].item.Variables())
				_ = fmt.Sprint(objs[id].item)
				_ = objs[id].item.Size()
			case kind == 4 || len(ms) == 0:
				id := its[g.pick(len(its))]
				gm := g.header(false)
				if g.pick(6) == 0 {
					gm.W = 1 // possibly W on an even function: refused
				}
				op = J{"k": "newmsg", "item": id + 1, "name": textChars(gm.Name), "s": gm.S, "f": gm.F, "w": gm.W, "dir": gm.Dir}
				addMsg(func() *ast.DataMessage { return ast.NewDataMessage(gm.Name, gm.S, gm.F, gm.W, gm.Dir, objs[id].item) }, -1)
			case kind == 5:
				id := its[g.pick(len(its))]
				gm := g.header(true)
				sys := append([]byte{}, gm.Sys[:g.pick(5)]...)
				if g.pick(3) == 0 {
					sys = append(sys, 9, 9, 9)
				}
				sid := []int{gm.Sid, gm.Sid, -1, 65536, 0, 65535}[g.pick(6)]
				op = J{"k": "newhsms", "item": id + 1, "name": textChars(gm.Name), "s": gm.S, "f": gm.F, "w": gm.W, "dir": gm.Dir,
					"sid": sid, "sys": bytesJ(sys)}
				addMsg(func() *ast.DataMessage {
					return ast.NewHSMSDataMessage(gm.Name, gm.S, gm.F, gm.W, gm.Dir, objs[id].item, sid, sys)
				}, -1)
				scribbleBytes(sys)
			case kind == 6 || kind == 7:
				id := ms[g.pick(len(ms))]
				b := g.pick(2) == 0
				op = J{"k": "setwait", "id": id + 1, "b": b}
				addMsg(func() *ast.DataMessage { return objs[id].msg.SetWaitBit(b) }, id)
			case kind == 8 || kind == 9:
				id := ms[g.pick(len(ms))]
				sys := make([]byte, g.pick(7))
				g.r.Read(sys)
				sid := []int{g.pick(65536), g.pick(65536), -1, -2, 65535, 65536, 0}[g.pick(7)]
				if g.pick(2) == 0 {
					// arguments close to what the message already holds: the same session id, and its system bytes with
					// leading or trailing zeros dropped, cut short, or with a zero in front or behind
					cur := objs[id].msg.SystemBytes()
					if cs := objs[id].msg.SessionID(); cs >= 0 && g.pick(4) != 0 {
						sid = cs
					}
					lead, trail := 0, len(cur)
					for lead < len(cur) && cur[lead] == 0 {
						lead++
					}
					for trail > 0 && cur[trail-1] == 0 {
						trail--
					}
					switch g.pick(7) {
					case 0:
						sys = clone(cur[lead:])
					case 1:
						sys = clone(cur[:trail])
					case 2:
						sys = clone(cur[:g.pick(len(cur)+1)])
					case 3:
						sys = append([]byte{0}, cur...)
					case 4:
						sys = append(clone(cur), 0)
					case 5:
						sys = []byte{0, 0, 0, byte(1 + g.pick(255))}
					default:
						sys = clone(cur)
					}
				}
				op = J{"k": "setsession", "id": id + 1, "sid": sid, "sys": bytesJ(sys)}
				addMsg(func() *ast.DataMessage { return objs[id].msg.SetSessionIDAndSystemBytes(sid, sys) }, -1)
				if res["outcome"] == "new" && g.pick(3) == 0 {
					now := objs[len(objs)-1].msg.SystemBytes()
					lead := 0
					for lead < 3 && now[lead] == 0 {
						lead++
					}
					again := [][]byte{clone(now[lead:]), clone(now[:2]), append([]byte{0}, now...), clone(now), {}}[g.pick(5)]
					pendingSess = append(pendingSess, sessArgs{len(objs) - 1, sid, again})
				}
				scribbleBytes(sys)
			case kind == 10:
				id := ms[g.pick(len(ms))]
				sig, sj := histSigma(g, objs[id].msg.Variables(), ast.VerifDataItem(objs[id].msg))
				cj := histRich(g, objs, its, ast.VerifDataItem(objs[id].msg), sig, &sj)
				op = J{"k": "fillmsg", "id": id + 1, "sigma": sj, "cnt": cj}
				addMsg(func() *ast.DataMessage { return objs[id].msg.FillVariables(sig) }, -1)
				for k := range sig {
					sig[k] = "scribbled"
				}
			case kind == 11:
				id := ms[g.pick(len(ms))]
				op = J{"k": "observemsg", "id": id + 1}
				scribbleBytes(objs[id].msg.SystemBytes())
				scribbleBytes(objs[id].msg.ToBytes())
				scribbleNames(objs[id].msg.Variables())
				_ = objs[id].msg.String()
			default:
				id := ms[g.pick(len(ms))]
				b := objs[id].msg.ToBytes()
				in := poisoned(b)
				op = J{"k": "decode", "id": id + 1}
				addMsg(func() *ast.DataMessage {
					m, ok := hsms.Parse(in)
					if !ok {
						panic("not ok")
					}
					return m.(*ast.DataMessage)
				}, -1)
				scribbleBytes(in) // the decoder must not keep the caller's buffer
			}
			dig := make([]string, len(objs))
			for k, o := range objs {
				dig[k] = o.digest()
			}
			c.emit(i, J{"ev": "step", "op": op, "res": res, "dig": dig, "newdig": newdig, "step": st})
		}
		c.count("hist.histories")
	}
}

// histRich adds to a fill what makes it more than a plain substitution: repeat counts for the ellipses of the item, and -
// for a variable of a list - an item of the pool that has variables of its own, together with a value for one of
// *those* (which the fill must leave alone: the inserted item belongs to the caller).
func histRich(g *Gen, objs []hobj, its []int, it ast.ItemNode, sig map[string]interface{}, sj *[]interface{}) []interface{} {
	cj := []interface{}{}
	var listVars []string
	for _, name := range it.Variables() {
		if ellRe.MatchString(name) {
			if g.pick(3) != 0 {
				n := g.pick(3)
				sig[name] = n
				cj = append(cj, J{"k": chars(name), "n": n})
			}
			continue
		}
	}
	var walk func(n *ast.VerifNode)
	walk = func(n *ast.VerifNode) {
		if n.Kind != "L" {
			return
		}
		for name := range n.Vars {
			if !ellRe.MatchString(name) {
				listVars = append(listVars, name)
			}
		}
		for _, k := range n.Items {
			if k != nil {
				walk(k)
			}
		}
	}
	walk(ast.VerifProject(it))
	sortStrings(listVars)
	if len(listVars) > 0 && g.pick(3) == 0 {
		var donors []int
		for _, k := range its {
			if len(objs[k].item.Variables()) > 0 {
				donors = append(donors, k)
			}
		}
		if len(donors) > 0 {
			v := listVars[g.pick(len(listVars))]
			x := objs[donors[g.pick(len(donors))]].item
			replaced := false
			for k, e := range *sj {
				if string(unJ(e.(J)["k"].([]int))) == v {
					(*sj)[k] = J{"k": chars(v), "v": projItem(x)}
					replaced = true
				}
			}
			if !replaced {
				*sj = append(*sj, J{"k": chars(v), "v": projItem(x)})
			}
			sig[v] = x
			var inner []string
			for _, n := range x.Variables() {
				if _, taken := sig[n]; !taken && !ellRe.MatchString(n) {
					inner = append(inner, n)
				}
			}
			if len(inner) > 0 {
				isig, isj := histSigma(g, inner[:1], x)
				for k, val := range isig {
					sig[k] = val
				}
				*sj = append(*sj, isj...)
			}
		}
	}
	return cj
}

// histSigma chooses in-domain, variable-free values for a random subset of the variables.
func histSigma(g *Gen, names []string, it ast.ItemNode) (map[string]interface{}, []interface{}) {
	kinds := map[string]string{}
	var walk func(n *ast.VerifNode)
	walk = func(n *ast.VerifNode) {
		switch n.Kind {
		case "L":
			for name, pos := range n.Vars {
				_ = pos
				kinds[name] = "item"
			}
			for _, k := range n.Items {
				if k != nil {
					walk(k)
				}
			}
		case "A":
			if !n.IsValue {
				kinds[n.VarName] = fmt.Sprintf("A:%d:%d", n.Min, n.Max)
			}
		default:
			f := n.Kind
			if n.ByteSize > 0 {
				f = fmt.Sprintf("%s%d", n.Kind, n.ByteSize)
			}
			for name := range n.Vars {
				kinds[name] = f
			}
		}
	}
	walk(ast.VerifProject(it))
	sig := map[string]interface{}{}
	sj := []interface{}{}
	for _, name := range names {
		if g.pick(3) == 0 || ellRe.MatchString(name) {
			continue
		}
		k := kinds[name]
		if k == "" {
			continue // not a variable of the representation (the observer returned something else)
		}
		var v interface{}
		f := k
		switch {
		case k == "item":
			v = g.tree(1, false).Build()
		case len(k) > 2 && k[:2] == "A:":
			var lo, hi int
			fmt.Sscanf(k, "A:%d:%d", &lo, &hi)
			n := lo + g.pick(3)
			if hi != -1 && n > hi {
				n = hi
			}
			b := make([]byte, n)
			for x := range b {
				b[x] = byte(g.pick(128))
			}
			v = string(b)
			f = "A"
		default:
			v = g.value(k)
		}
		sig[name] = v
		sj = append(sj, J{"k": chars(name), "v": valueJ(f, v)})
	}
	return sig, sj
}
