package main

// Drivers for the HSMS codec: C01 (round trip), C02 (wire format), C03 (decoder accepts exactly the
// well-formed messages), C13 (length headers read back).

import (
	"bufio"
	"encoding/json"
	"fmt"
	"math"
	"os"
	"strings"

	"github.com/wolimst/lib-secs2-hsms-go/pkg/ast"
	"github.com/wolimst/lib-secs2-hsms-go/pkg/parser/hsms"
	"github.com/wolimst/lib-secs2-hsms-go/pkg/parser/sml"
)

func init() {
	drivers["rt"] = driverRT
	drivers["hsms-enum"] = driverHsmsEnum
	drivers["corrupt"] = driverCorrupt
}

// try runs f and reports whether it panicked.
func try(f func()) (panicked bool, msg string) {
	defer func() {
		if r := recover(); r != nil {
			panicked, msg = true, fmt.Sprint(r)
		}
	}()
	f()
	return
}

var poison = []byte{0x41, 0x01, 0x41}

// poisoned returns b as a slice of a larger buffer whose tail holds bytes that form valid items,
// so that a decoder reading past len(b) (into spare capacity) does not fault but mis-decodes.
func poisoned(b []byte) []byte {
	buf := make([]byte, len(b)+96)
	copy(buf, b)
	for i := len(b); i < len(buf); i++ {
		buf[i] = poison[(i-len(b))%3]
	}
	return buf[:len(b)]
}

func exact(b []byte) []byte {
	if b == nil {
		return nil
	}
	c := make([]byte, len(b))
	copy(c, b)
	return c[:len(b):len(b)]
}

type decResult struct {
	ok     bool
	m      ast.HSMSMessage
	hdrs   []interface{}
	panick bool
}

// decode runs the real decoder on an exact-capacity copy, recording the item-header hook events.
func decode(b []byte, how func([]byte) []byte) decResult {
	var r decResult
	in := how(b)
	hsms.VerifItemHook = func(pos, code, nl, length int) {
		l := length
		if l > 1<<30 || l < 0 {
			l = 1 << 30
		}
		r.hdrs = append(r.hdrs, J{"pos": pos, "code": code, "nl": nl, "len": l})
	}
	r.panick, _ = try(func() { r.m, r.ok = hsms.Parse(in) })
	hsms.VerifItemHook = nil
	scribbleBytes(in) // the receive buffer is reused: what was decoded from it must not change
	if r.hdrs == nil {
		r.hdrs = []interface{}{}
	}
	return r
}

// projHSMS projects any decoded message: data messages by fields, control messages by header.
func projHSMS(m ast.HSMSMessage) J {
	if m == nil {
		return J{"kind": "nil"}
	}
	if d, ok := m.(*ast.DataMessage); ok {
		r := projMsg(d)
		r["kind"] = "data"
		return r
	}
	if h, ok := ast.VerifControlHeader(m); ok {
		return J{"kind": "ctrl", "hdr": bytesJ(h), "type": m.Type()}
	}
	return J{"kind": "unknown"}
}

// recvBuf is one receive buffer for the whole process, as a connection handler has: every frame is copied to its front
// and decoded from there, the next frame overwrites it (nothing else touches it in between).
var recvBuf = make([]byte, 1<<16)

func decodeReused(b []byte) (ok bool, same bool, panicked bool) {
	if len(b) > len(recvBuf) {
		recvBuf = make([]byte, 2*len(b))
	}
	n := copy(recvBuf, b)
	var m ast.HSMSMessage
	panicked, _ = try(func() { m, ok = hsms.Parse(recvBuf[:n]) })
	if ok && m != nil && !panicked {
		try(func() { same = string(m.ToBytes()) == string(b) })
	}
	return
}

// decodeEvent records everything C01/C03/C13 look at for one input.
func decodeEvent(b []byte) J {
	ev := J{"bytes": bytesJ(b)}
	e := decode(b, exact)
	p := decode(b, poisoned)
	rok, rsame, rpanic := decodeReused(b)
	ev["rok"], ev["rsame"] = rok, rsame
	ev["ok"], ev["pok"] = e.ok, p.ok
	ev["panic"] = e.panick || p.panick || rpanic
	ev["hdrs"] = e.hdrs
	same := func(x []byte) (bool, []int) {
		if string(x) == string(b) {
			return true, []int{}
		}
		return false, bytesJ(x)
	}
	ev["same2"], ev["bytes2"], ev["psame2"], ev["pbytes2"] = false, []int{}, false, []int{}
	// what a decode returned is looked at only after other messages - with lists of other shapes and elements - have gone
	// through the decoder: a result belongs to its caller, whatever is decoded next
	disturbDecoder()
	if e.ok {
		ev["msg2"] = projHSMS(e.m)
		ev["same2"], ev["bytes2"] = same(e.m.ToBytes())
		ev["type2"] = typeOfMsg(e.m)
	} else {
		ev["msg2"] = J{"kind": "nil"}
		ev["type2"] = ""
	}
	if p.ok {
		ev["psame2"], ev["pbytes2"] = same(p.m.ToBytes())
	}
	return ev
}

var disturbers [][]byte

func disturbDecoder() {
	if disturbers == nil {
		leaf := func(k int) ast.ItemNode {
			return []ast.ItemNode{ast.NewASCIINode("disturb"), ast.NewUintNode(1, 9, 9, 9), ast.NewBinaryNode(1, 2), ast.NewBooleanNode(true),
				ast.NewFloatNode(8, 1.5), ast.NewIntNode(2, -3), ast.NewListNode()}[k%7]
		}
		var wide []interface{}
		for k := 0; k < 40; k++ {
			wide = append(wide, leaf(k))
		}
		deep := ast.NewListNode(leaf(0))
		for k := 1; k < 12; k++ {
			deep = ast.NewListNode(leaf(k), deep, leaf(k+3))
		}
		for _, it := range []ast.ItemNode{ast.NewListNode(wide...), deep, ast.NewListNode(ast.NewListNode(leaf(3), leaf(4)), ast.NewListNode(leaf(5)))} {
			disturbers = append(disturbers, ast.NewHSMSDataMessage("d", 99, 1, 1, "H->E", it, 4660, []byte{8, 8, 8, 8}).ToBytes())
		}
		// ... and one that is refused half way through its lists
		bad := append([]byte{}, disturbers[1]...)
		bad = bad[:len(bad)-5]
		n := len(bad) - 4
		bad[0], bad[1], bad[2], bad[3] = byte(n>>24), byte(n>>16), byte(n>>8), byte(n)
		disturbers = append(disturbers, bad)
	}
	// (every event would be affordable on the library as it is - 4 s for 12 000 events - but not on a decoder that a
	// change has made slow: one event in four gets the disturbers, every sixteenth all of them)
	disturbCalls++
	if disturbCalls%4 != 0 {
		return
	}
	for k, d := range disturbers {
		if disturbCalls%16 == 0 || k == int(disturbCalls/4)%len(disturbers) {
			try(func() { hsms.Parse(d) })
		}
	}
}

var disturbCalls int

func typeOfMsg(m ast.HSMSMessage) (t string) {
	if p, _ := try(func() { t = m.Type() }); p {
		return "PANIC"
	}
	return t
}

// complete builds a complete message from a header description and an item, by one of several routes.
func buildComplete(g *Gen, gm *GMsg, item ast.ItemNode, route int) *ast.DataMessage {
	switch route {
	case 0:
		return ast.NewHSMSDataMessage(gm.Name, gm.S, gm.F, gm.W, gm.Dir, item, gm.Sid, gm.Sys)
	case 1: // template life cycle: optional wait bit, then decided, then session
		w := 2
		if g.pick(2) == 0 {
			w = gm.W
		}
		// every intermediate message is looked at before the next producer is called (a sender probing whether it can
		// send yet): what an observer answered for a predecessor must not stick to the successor
		probe := func(m *ast.DataMessage) *ast.DataMessage {
			if g.pick(2) == 0 {
				_ = m.ToBytes()
				_ = m.String()
				_ = m.Variables()
			}
			return m
		}
		m := probe(ast.NewDataMessage(gm.Name, gm.S, gm.F, w, gm.Dir, item))
		if g.pick(2) == 0 {
			m = probe(probe(m.SetSessionIDAndSystemBytes(gm.Sid, gm.Sys)).SetWaitBit(gm.W == 1))
		} else {
			m = probe(probe(m.SetWaitBit(gm.W == 1)).SetSessionIDAndSystemBytes(gm.Sid, gm.Sys))
		}
		return m
	}
	panic("bad route")
}

// sizeBoundaryItem returns an item whose element count straddles a length-byte boundary.
func sizeBoundaryItem(g *Gen, big bool) *GItem {
	// (the 65535|65536 boundary is exercised by the "big" driver, whose events are run-length summaries)
	counts := []int{254, 255, 256, 257}
	if big {
		counts = []int{1023, 1024, 1025, 2049, 4095}
	}
	n := counts[g.pick(len(counts))]
	f := allFormats[g.pick(len(allFormats))]
	w := 1
	if f != "L" && f != "A" && f != "B" && f != "BOOLEAN" {
		w = fmtSize(f)
	}
	if g.pick(2) == 0 {
		n = n / w // payload bytes straddle the boundary instead of the element count
		if n == 0 {
			n = 1
		}
	}
	it := &GItem{F: f}
	switch f {
	case "L":
		for i := 0; i < n; i++ {
			it.Kids = append(it.Kids, &GItem{F: "U1", Vals: []interface{}{uint64(i % 251)}})
		}
	case "A":
		b := make([]byte, n)
		for i := range b {
			b[i] = byte(32 + i%90)
		}
		it.Str = string(b)
	default:
		for i := 0; i < n; i++ {
			it.Vals = append(it.Vals, g.value(f))
		}
	}
	return it
}

func bigEvery(tier string) int {
	if tier == "thorough" {
		return 4
	}
	return 32
}

func driverRT(c *Ctx) {
	var prev []byte // a previous encoding, for the "decoder output re-encoded" route
	for i := 0; i < c.N; i++ {
		g := c.gen(i)
		gm := g.header(true)
		g.Ladder, g.LadderTo = 40, 1025 // sizes next to powers of two: values, characters, children
		how := []string{"factory", "lifecycle", "fill", "sml", "hsms", "incomplete", "factory", "fill"}[g.pick(8)]
		big := false
		if i%16 == 5 {
			how = "boundary"                   // element counts and payload sizes around 255|256
			big = i%(16*bigEvery(c.Tier)) == 5 // ... and around 65535|65536
		}
		if i%16 == 11 {
			how = "deep" // many lists open at once
		}
		if i%32 == 19 {
			how = "twin-counts" // a list and a list inside it with the same number of elements
		}
		var m *ast.DataMessage
		var item ast.ItemNode = ast.NewEmptyItemNode()
		depth := 1 + g.pick(4)
		switch how {
		case "factory", "lifecycle", "sml", "hsms":
			if g.pick(8) != 0 {
				item = g.tree(depth, false).Build()
			}
		case "boundary":
			item = sizeBoundaryItem(g, big).Build()
		case "twin-counts":
			// <L[n] s.. <L[n] t..> ..>: the inner list behind a few small siblings, its first child unlike the outer one's
			n := []int{2, 15, 16, 255, 256, 257, 300}[g.pick(7)]
			inner := make([]interface{}, n)
			outer := make([]interface{}, n)
			for k := 0; k < n; k++ {
				inner[k] = ast.NewUintNode(1, 1+k%200)
				outer[k] = ast.NewUintNode(1, 201+k%50)
			}
			if g.pick(2) == 0 {
				inner[0] = ast.NewBooleanNode(true)
			}
			at := 4
			if n < at {
				at = n
			}
			outer[g.pick(at)] = ast.NewListNode(inner...)
			item = ast.NewListNode(outer...)
		case "deep":
			d := []int{8, 15, 16, 17, 18, 31, 32, 33, 64, 65, 100}[g.pick(11)] // (the JSON reader of TLC nests at most 255 deep)
			var cur ast.ItemNode = g.leaf(false).Build()
			for k := 0; k < d; k++ {
				switch g.pick(3) {
				case 0:
					cur = ast.NewListNode(cur)
				case 1:
					cur = ast.NewListNode(g.leaf(false).Build(), cur)
				default:
					cur = ast.NewListNode(cur, g.leaf(false).Build(), ast.NewListNode())
				}
			}
			item = cur
		}
		switch how {
		case "factory", "boundary", "deep", "twin-counts":
			m = buildComplete(g, gm, item, 0)
		case "lifecycle":
			m = buildComplete(g, gm, item, 1)
		case "fill":
			tmpl := g.tree(depth, true)
			fill := g.fillValues(tmpl, nil)
			t := ast.NewDataMessage(gm.Name, gm.S, gm.F, gm.W, gm.Dir, tmpl.Build())
			// fill in one or two steps
			keys := sortedKeys(fill)
			if len(keys) > 1 && g.pick(2) == 0 {
				k := 1 + g.pick(len(keys)-1)
				a, b := map[string]interface{}{}, map[string]interface{}{}
				for j, key := range keys {
					if j < k {
						a[key] = fill[key]
					} else {
						b[key] = fill[key]
					}
				}
				t = t.FillVariables(a).FillVariables(b)
			} else {
				t = t.FillVariables(fill)
			}
			m = t.SetSessionIDAndSystemBytes(gm.Sid, gm.Sys)
		case "sml":
			// through the SML printer and parser; names the header lexer cannot read back are replaced
			src := ast.NewDataMessage("n"+fmt.Sprint(i), gm.S, gm.F, gm.W, gm.Dir, item)
			msgs, errs, _ := sml.Parse(src.String())
			if len(errs) != 0 || len(msgs) != 1 {
				c.count("rt.sml.skipped") // C04's business, not this driver's
				m = buildComplete(g, gm, item, 0)
				how = "factory"
			} else {
				m = msgs[0].SetSessionIDAndSystemBytes(gm.Sid, gm.Sys)
			}
		case "hsms":
			if prev == nil {
				prev = buildComplete(g, gm, item, 0).ToBytes()
			}
			r := decode(prev, exact)
			if d, ok := r.m.(*ast.DataMessage); r.ok && ok {
				m = d
			} else {
				c.count("rt.hsms.skipped")
				m = buildComplete(g, gm, item, 0)
				how = "factory"
			}
		case "incomplete":
			// C02: a message that is not complete encodes to nothing
			var it ast.ItemNode = g.tree(depth, false).Build()
			cause := 1 + g.pick(15)
			w := gm.W
			if cause&1 != 0 {
				w = 2
			}
			if cause&2 != 0 {
				it = g.tree(depth, true).Build()
			}
			if cause&8 != 0 {
				// the open variable arrives later, inside an item that is filled into a variable of the list
				it = ast.NewListNode(it, "hole9", ast.NewBooleanNode(true))
			}
			m = ast.NewDataMessage(gm.Name, gm.S, gm.F, w, gm.Dir, it)
			if cause&4 == 0 {
				m = m.SetSessionIDAndSystemBytes(gm.Sid, gm.Sys)
			}
			if cause&8 != 0 {
				var carrier ast.ItemNode = ast.NewUintNode(2, 7, "inner9")
				if g.pick(2) == 0 {
					carrier = ast.NewListNode(ast.NewASCIINode("k"), ast.NewListNode("inner9"))
				}
				m = m.FillVariables(map[string]interface{}{"hole9": carrier})
			}
		}
		if c.want(i) && i%16 == 13 {
			// items made with the factories from values of the narrowest Go types (signed and unsigned ones of exactly
			// the item's width, the upper half of their range included): whatever the factory lets through must travel
			w := []int{1, 2, 4}[g.pick(3)]
			var vals []interface{}
			for k := 0; k < 1+g.pick(4); k++ {
				hi := g.pick(2) == 0
				switch w {
				case 1:
					vals = append(vals, uint8(g.pick(128)+map[bool]int{true: 128, false: 0}[hi]))
				case 2:
					vals = append(vals, uint16(g.pick(32768)+map[bool]int{true: 32768, false: 0}[hi]))
				default:
					vals = append(vals, uint32(g.pick(1<<31))+map[bool]uint32{true: 1 << 31, false: 0}[hi])
				}
			}
			var probe *ast.DataMessage
			if p, _ := try(func() { probe = buildComplete(g, gm, ast.NewListNode(ast.NewIntNode(w, vals...)), 0) }); !p && probe != nil {
				ev := decodeEvent(probe.ToBytes())
				ev["ev"], ev["how"], ev["msg"] = "rt", "narrow-types", projMsg(probe)
				c.emit(i, ev)
				c.count("rt.narrow-types-built")
			}
		}
		if c.want(i) && i%32 == 9 {
			// what was handed out stays what it was: the encodings of a wide list and of a message on it, kept while
			// other wide lists and messages are encoded, still are their encodings afterwards
			n := []int{1023, 1024, 1025, 1100, 1024, 2048}[g.pick(6)]
			mkWide := func(off int) ast.ItemNode {
				kids := make([]interface{}, n)
				for k := range kids {
					kids[k] = ast.NewUintNode(1, (k+off)%251)
				}
				return ast.NewListNode(kids...)
			}
			wa, wb := mkWide(0), mkWide(7)
			ma := buildComplete(g, gm, wa, 0)
			keptItem, keptMsg := wa.ToBytes(), ma.ToBytes()
			copyItem, copyMsg := clone(keptItem), clone(keptMsg)
			_ = wb.ToBytes()
			_ = buildComplete(g, gm, wb, 0).ToBytes()
			_ = mkWide(3).ToBytes()
			same := string(keptItem) == string(copyItem) && string(keptMsg) == string(copyMsg) // (judged before anything else is encoded)
			ev := decodeEvent(copyMsg)
			ev["ev"], ev["how"], ev["msg"] = "rt", "kept", projMsg(ma)
			ev["keptsame"] = same
			c.emit(i, ev)
			c.count("rt.kept")
		}
		if c.want(i) && i%256 == 35 {
			// very many encodings that come to nothing deep inside nested lists (a variable at the bottom), of ever
			// shallower nesting - then a complete message with lists: it has bytes like any other
			for _, x := range [][2]int{{4096, 300}, {256, 130}, {4, 130}, {1, 16}} {
				var cur ast.ItemNode = ast.NewUintNode(2, "open9")
				for k := 0; k < x[0]; k++ {
					cur = ast.NewListNode(cur)
				}
				probe := ast.NewListNode(ast.NewASCIINode("k"), cur)
				for k := 0; k < x[1]; k++ {
					if len(probe.ToBytes()) != 0 {
						break
					}
				}
			}
			am := buildComplete(g, gm, ast.NewListNode(ast.NewUintNode(1, 1), ast.NewListNode(ast.NewASCIINode("x"), ast.NewListNode())), 0)
			ev := decodeEvent(am.ToBytes())
			ev["ev"], ev["how"], ev["msg"] = "rt", "after-empty-encodings", projMsg(am)
			c.emit(i, ev)
			c.count("rt.after-empty-encodings")
		}
		if c.want(i) && i%8 == 6 {
			// two frames of the same shape and different contents, one after the other through the same receive buffer
			for v := 0; v < 2; v++ {
				lot := fmt.Sprintf("LOT-%04d", 2*i+v)
				tw := buildComplete(g, gm, ast.NewListNode(ast.NewASCIINode(lot), ast.NewUintNode(4, 1000*v+i), ast.NewBinaryNode(v, 7),
					ast.NewListNode(ast.NewASCIINode(fmt.Sprintf("WAFER-%02d", (i+v)%100)), ast.NewIntNode(2, -v))), 0)
				ev := decodeEvent(tw.ToBytes())
				ev["ev"], ev["how"], ev["msg"] = "rt", "same-shape", projMsg(tw)
				c.emit(i, ev)
				c.count("rt.same-shape")
			}
		}
		if !c.want(i) {
			if m != nil && how != "incomplete" {
				prev = m.ToBytes()
			}
			continue
		}
		b := m.ToBytes()
		if how == "incomplete" {
			c.emit(i, J{"ev": "enc", "how": how, "msg": projMsg(m), "bytes": bytesJ(b)})
			// ... and still does when it is asked again
			c.emit(i, J{"ev": "enc", "how": how, "msg": projMsg(m), "bytes": bytesJ(m.ToBytes())})
			c.count("rt.incomplete")
			continue
		}
		if i%2 == 1 {
			// encoding is a function of the message: the second answer is the one judged here
			scribbleBytes(b)
			b = m.ToBytes()
		}
		prev = b
		if i%4 == 3 {
			poisonDecode(g)
		}
		ev := decodeEvent(b)
		ev["ev"] = "rt"
		ev["how"] = how
		ev["msg"] = projMsg(m)
		c.emit(i, ev)
		c.count("rt." + how)
		if i%4 == 1 || how == "boundary" {
			// a message derived from this complete (and just encoded) one: another session id, other system bytes -
			// it has bytes of its own
			m2 := m.SetSessionIDAndSystemBytes((m.SessionID()+1)%65536, []byte{byte(i), 2, 3, byte(i >> 8)})
			ev2 := decodeEvent(m2.ToBytes())
			ev2["ev"] = "rt"
			ev2["how"] = how + "-derived"
			ev2["msg"] = projMsg(m2)
			c.emit(i, ev2)
			c.count("rt.derived")
		}
		if i%4 == 2 {
			// two relatives of one definition with an optional wait bit - one sent with W, one without, to this session or
			// to another one - encoded one after the other: each has the bytes of its own fields, whichever came first
			def := ast.NewDataMessage(m.Name(), m.StreamCode(), m.FunctionCode()|1, 2, m.Direction(), ast.VerifDataItem(m))
			if g.pick(2) == 0 {
				def = def.SetSessionIDAndSystemBytes(m.SessionID(), m.SystemBytes())
			}
			first := g.pick(2) == 0
			ra := def.SetWaitBit(first)
			rb := def.SetWaitBit(!first)
			if ra.SessionID() < 0 {
				ra = ra.SetSessionIDAndSystemBytes(m.SessionID(), m.SystemBytes())
				rb = rb.SetSessionIDAndSystemBytes((m.SessionID()+7)%65536, []byte{9, byte(i), 0, 1})
			}
			ba := ra.ToBytes()
			bb := rb.ToBytes()
			for k, r := range []*ast.DataMessage{ra, rb} {
				evr := decodeEvent([][]byte{ba, bb}[k])
				evr["ev"], evr["how"], evr["msg"] = "rt", how+"-relatives", projMsg(r)
				c.emit(i, evr)
			}
			c.count("rt.relatives")
		}
	}
}

// ---------------------------------------------------------------- co-enumeration (C03)

// the scope of spec/MCDecoder.tla: texts over Alpha behind the base header
var hsmsAlpha = []byte{0, 1, 2, 3, 4, 5, 33, 37, 65, 101, 105, 145, 161, 127, 128, 255}

func mkMsg(delta int, ptype, stype, wb, f byte, text []byte) []byte {
	n := len(text) + 10 + delta
	b := []byte{byte(n >> 24), byte(n >> 16), byte(n >> 8), byte(n), 0, 7, wb, f, ptype, stype, 1, 2, 3, 4}
	return append(b, text...)
}

// hsms-enum: run every text of length <= N over the alphabet through the real decoder and compare the
// set of accepted texts (and their re-encodings) with the table TLC produced from the specification
// (-in: NDJSON lines {"text":[..],"re":[..]}).  Every disagreement, and a sample of agreements, is
// emitted as a decode event for the trace specification, which renders the verdict.
func driverHsmsEnum(c *Ctx) {
	table := map[string]string{}
	if c.In != "" {
		f, err := os.Open(c.In)
		if err != nil {
			fmt.Fprintln(os.Stderr, "harness:", err)
			os.Exit(3)
		}
		sc := bufio.NewScanner(f)
		sc.Buffer(make([]byte, 1<<20), 1<<26)
		for sc.Scan() {
			var row struct {
				Text []int `json:"text"`
				Re   []int `json:"re"`
			}
			if err := json.Unmarshal(sc.Bytes(), &row); err != nil {
				fmt.Fprintln(os.Stderr, "harness: bad table row:", err)
				os.Exit(3)
			}
			table[string(unJ(row.Text))] = string(unJ(row.Re))
		}
		f.Close()
	}
	idx := 0
	text := []byte{}
	var rec func(depth int)
	visit := func() {
		i := idx
		idx++
		if !c.want(i) {
			return
		}
		b := mkMsg(0, 0, 0, 129, 1, text)
		e := decode(b, exact)
		p := decode(b, poisoned)
		c.count("enum.inputs")
		want, inTable := table[string(text)]
		agree := e.ok == inTable && p.ok == inTable
		if agree && e.ok {
			agree = string(e.m.ToBytes()) == want && string(p.m.ToBytes()) == want
		}
		if e.ok {
			c.count("enum.accepted")
		}
		// every disagreement is an event; agreements are sampled (all accepted ones in a -only run)
		if !agree || c.Only >= 0 || (e.ok && i%7 == 0) || i%997 == 0 {
			ev := decodeEvent(b)
			ev["ev"] = "dec"
			ev["how"] = "enum"
			ev["intable"] = inTable
			c.emit(i, ev)
			if !agree {
				c.count("enum.disagreements")
			}
		}
	}
	rec = func(depth int) {
		visit()
		if depth == c.N {
			return
		}
		for _, a := range hsmsAlpha {
			text = append(text, a)
			rec(depth + 1)
			text = text[:len(text)-1]
		}
	}
	rec(0)
	c.Stats["enum.table"] = len(table)
}

// ---------------------------------------------------------------- corruptions (C03)

// widen rewrites the encoding of an item tree with non-minimal length bytes chosen at random.
func widen(g *Gen, it ast.ItemNode) []byte {
	var enc func(n *ast.VerifNode) []byte
	enc = func(n *ast.VerifNode) []byte {
		var payload []byte
		var length int
		var code byte
		if n.Kind == "L" {
			length = len(n.Items)
			for i := range n.Items {
				payload = append(payload, enc(n.Items[i])...)
			}
		} else {
			// leaf: take the library's own encoding apart (format byte, minimal length, payload)
			b := leafBytes(n)
			nl := int(b[0] & 3)
			code = b[0] >> 2
			payload = b[1+nl:]
			length = len(payload)
		}
		min := 1
		if length > 255 {
			min = 2
		}
		if length > 65535 {
			min = 3
		}
		nl := min + g.pick(4-min)
		out := []byte{code<<2 | byte(nl)}
		for k := nl - 1; k >= 0; k-- {
			out = append(out, byte(length>>(8*uint(k))))
		}
		return append(out, payload...)
	}
	return enc(ast.VerifProject(it))
}

// leafBytes re-builds a leaf from its projection and encodes it with the library (minimal form).
func leafBytes(n *ast.VerifNode) []byte {
	var it ast.ItemNode
	switch n.Kind {
	case "A":
		it = ast.NewASCIINode(n.Str)
	case "B":
		v := make([]interface{}, len(n.Bins))
		for i, x := range n.Bins {
			v[i] = x
		}
		it = ast.NewBinaryNode(v...)
	case "BOOLEAN":
		v := make([]interface{}, len(n.Bools))
		for i, x := range n.Bools {
			v[i] = x
		}
		it = ast.NewBooleanNode(v...)
	case "I":
		v := make([]interface{}, len(n.Ints))
		for i, x := range n.Ints {
			v[i] = x
		}
		it = ast.NewIntNode(n.ByteSize, v...)
	case "U":
		v := make([]interface{}, len(n.Uints))
		for i, x := range n.Uints {
			v[i] = x
		}
		it = ast.NewUintNode(n.ByteSize, v...)
	case "F":
		v := make([]interface{}, len(n.Floats))
		for i, x := range n.Floats {
			v[i] = x
		}
		it = ast.NewFloatNode(n.ByteSize, v...)
	default:
		panic("leafBytes: " + n.Kind)
	}
	return it.ToBytes()
}

func setLen(b []byte) []byte {
	n := len(b) - 4
	b[0], b[1], b[2], b[3] = byte(n>>24), byte(n>>16), byte(n>>8), byte(n)
	return b
}

// setLen4 patches the length field if there is one
func setLen4(b []byte) []byte {
	if len(b) >= 4 {
		return setLen(b)
	}
	return b
}

func clone(b []byte) []byte { return append([]byte(nil), b...) }

// corrupt: random valid encodings, their non-minimal rewritings, and single-point corruptions of both.
// One case = one base message; its variants are numbered inside the event ("variant").
func driverCorrupt(c *Ctx) {
	for i := 0; i < c.N; i++ {
		if !c.want(i) {
			continue
		}
		g := c.gen(i)
		g.MaxVals = 3
		g.MaxKids = 3
		gm := g.header(true)
		var item ast.ItemNode = ast.NewEmptyItemNode()
		hasItem := g.pick(10) != 0
		if hasItem {
			item = g.tree(1+g.pick(3), false).Build()
		}
		if i%10 == 3 {
			// many lists open at once
			item = g.leaf(false).Build()
			for k, d := 0, 14+g.pick(30); k < d; k++ {
				if g.pick(2) == 0 {
					item = ast.NewListNode(item)
				} else {
					item = ast.NewListNode(ast.NewUintNode(1, k), item)
				}
			}
			hasItem = true
		}
		if i%10 == 7 {
			if !hasItem {
				item = g.leaf(false).Build()
			}
			item, hasItem = ast.NewListNode(item, ast.NewListNode(ast.NewBooleanNode(true))), true // (see after-deep-refusals)
		}
		base := buildComplete(g, gm, item, 0).ToBytes()
		variants := [][]byte{base}
		names := []string{"valid"}
		add := func(name string, b []byte) { variants = append(variants, b); names = append(names, name) }
		if hasItem {
			for k := 0; k < 2; k++ {
				w := append(clone(base[:14]), widen(g, item)...)
				add("widened", setLen(w))
			}
		}
		// control messages, with and without text
		ctrl := clone(base[:14])
		ctrl[9] = []byte{1, 2, 3, 4, 5, 6, 7, 9}[g.pick(8)]
		add("control", setLen(clone(ctrl)))
		add("control+text", setLen(append(clone(ctrl), 0x21, 0x01, 0x05)))
		nb := len(variants)
		for v := 0; v < nb; v++ {
			src := variants[v]
			// truncation at every point (length field patched and not)
			step := 1
			if len(src) > 60 {
				step = len(src) / 40
			}
			for cut := 0; cut < 14 && v == 0; cut++ { // shorter than a header (nil for 0)
				if cut == 0 {
					add("trunc", nil)
				} else {
					add("trunc", clone(src[:cut]))
					add("trunc+len", setLen4(clone(src[:cut])))
				}
			}
			for cut := 14; cut < len(src); cut += step {
				add("trunc", clone(src[:cut]))
				add("trunc+len", setLen(clone(src[:cut])))
			}
			// appended bytes
			for _, tail := range [][]byte{{0}, {1, 0}, {0x41, 0x01, 0x41}, {0xA5, 0x01, 0x07}} {
				add("append", append(clone(src), tail...))
				add("append+len", setLen(append(clone(src), tail...)))
			}
			// header bytes (of the valid encoding and its first rewriting)
			for pos := 0; pos < 14 && v < 2; pos++ {
				for _, val := range []byte{0, 1, src[pos] + 1, src[pos] - 1, 0x80, 0xFF} {
					if val == src[pos] {
						continue
					}
					m := clone(src)
					m[pos] = val
					add("header", m)
				}
			}
			// body bytes: a sample of positions, each with several values
			for k := 0; k < 24 && len(src) > 14; k++ {
				pos := 14 + g.pick(len(src)-14)
				m := clone(src)
				switch g.pick(5) {
				case 0:
					m[pos] ^= 0x80
				case 1:
					m[pos]++
				case 2:
					m[pos]--
				case 3:
					m[pos] = m[pos]&^3 | byte(g.pick(4)) // number of length bytes
				default:
					m[pos] = byte(g.pick(256))
				}
				add("body", m)
			}
		}
		// non-finite patterns written over float values, 8-bit characters over ASCII ones
		for k := 14; k+6 <= len(base); k++ {
			if base[k] == 0x91 && base[k+1] >= 4 && k+2+int(base[k+1]) <= len(base) { // F4, one length byte: every value in turn
				for at := 0; at+4 <= int(base[k+1]) && at < 16; at += 4 {
					for _, pat := range [][]byte{{0x7F, 0x80, 0, 0}, {0x7F, 0x80, 0, 1}, {0x7F, 0xC0, 0, 0}, {0xFF, 0x80, 0, 0}, {0xFF, 0xFF, 0xFF, 0xFF}, {0x7F, 0x7F, 0xFF, 0xFF}} {
						m := clone(base)
						copy(m[k+2+at:], pat)
						add("float-pattern", m)
					}
				}
			}
			if base[k] == 0x81 && base[k+1] >= 8 && k+2+int(base[k+1]) <= len(base) { // F8
				for at := 0; at+8 <= int(base[k+1]) && at < 32; at += 8 {
					for _, pat := range [][]byte{{0x7F, 0xF0, 0, 0, 0, 0, 0, 0}, {0x7F, 0xF0, 0, 0, 0, 0, 0, 1}, {0x7F, 0xF8, 0, 0, 0, 0, 0, 0}, {0xFF, 0xF0, 0, 0, 0, 0, 0, 0}, {0x7F, 0xEF, 0xFF, 0xFF, 0xFF, 0xFF, 0xFF, 0xFF}} {
						m := clone(base)
						copy(m[k+2+at:], pat)
						add("float-pattern", m)
					}
				}
			}
		}
		if i%8 == 0 {
			// float arrays of 1..4 values with one non-finite value at each position, at top level and in a list
			for n := 1; n <= 4; n++ {
				for at := 0; at < n; at++ {
					for _, w := range []int{4, 8} {
						for _, pat := range [][]byte{{0x7F, 0xC0}, {0x7F, 0x80}, {0xFF, 0x80}, {0xFF, 0xF8}, {0x7F, 0xF0}, {0xFF, 0xF0}} {
							fb := byte(0x91)
							if w == 8 {
								fb = 0x81
							}
							t := []byte{fb, byte(n * w)}
							for k := 0; k < n; k++ {
								v := make([]byte, w)
								v[0], v[1] = 0x3F, 0x80 // 1.0 / a finite double
								if k == at {
									copy(v, pat)
								}
								t = append(t, v...)
							}
							if g.pick(2) == 0 {
								t = append([]byte{0x01, 0x02, 0xA5, 0x01, 0x07}, t...)
							}
							add("float-array", setLen(append(clone(base[:14]), t...)))
						}
					}
				}
			}
		}
		if i%10 == 8 {
			// float arrays of 512 .. 4096 values with one value that is not finite, first, in the middle or last
			for k := 0; k < 6; k++ {
				w := []int{4, 8}[g.pick(2)]
				n := []int{512, 1023, 1024, 1500, 2048, 4096}[g.pick(6)]
				pat := [][]byte{{0x7F, 0x80, 0, 0}, {0xFF, 0x80, 0, 0}, {0x7F, 0xC0, 0, 0}}[g.pick(3)]
				if w == 8 {
					pat = [][]byte{{0x7F, 0xF0, 0, 0, 0, 0, 0, 0}, {0xFF, 0xF0, 0, 0, 0, 0, 0, 0}, {0x7F, 0xF8, 0, 0, 0, 0, 0, 1}}[g.pick(3)]
				}
				at := []int{0, n / 2, n - 1}[g.pick(3)]
				t := []byte{byte(map[int]int{4: 0x90, 8: 0x80}[w] | 3), byte(n * w >> 16), byte(n * w >> 8), byte(n * w)}
				for j := 0; j < n; j++ {
					if j == at && k > 0 {
						t = append(t, pat...)
						continue
					}
					v := make([]byte, w)
					v[0], v[1] = 0x3F, byte(0x80+j%64) // an ordinary finite value
					t = append(t, v...)
				}
				if g.pick(2) == 0 {
					t = append([]byte{0x01, 0x02, 0x41, 0x03, 'T', 'R', '1'}, t...)
				}
				add("big-float-array", setLen(append(clone(base[:14]), t...)))
			}
		}
		if i%10 == 7 && hasItem {
			// the valid message once more, behind very many decodes that were refused deep inside nested lists (see below)
			add("after-deep-refusals", base)
		}
		// unstructured bytes
		for k := 0; k < 6; k++ {
			n := 10 + g.pick(30)
			r := make([]byte, n)
			g.r.Read(r)
			if g.pick(2) == 0 && n >= 14 {
				setLen(r)
				r[8], r[9] = 0, 0
			}
			add("random", r)
		}
		for v, b := range variants {
			if names[v] == "after-deep-refusals" {
				deepRefusals(g)
			}
			ev := decodeEvent(b)
			ev["ev"] = "dec"
			ev["how"] = names[v]
			ev["variant"] = v
			c.emit(i, ev)
			c.count("corrupt." + names[v])
		}
	}
}

var _ = strings.Repeat

// deepRefusals: 130 messages of 16 384 nested lists each (and then shallower ones), well-formed down to the innermost item, which the item
// factories refuse (a float that is not finite) or which is cut short - the decoder gives up with all those lists open.
// Nothing of that may be left for the decode that follows.
func deepRefusals(g *Gen) {
	// (then the same with ever shallower nesting: 256, 4 and 1 lists - whatever the refusals add up to, they add up finely)
	plan := []int{}
	for _, x := range [][2]int{{16384, 130}, {256, 130}, {4, 130}, {1, 16}} {
		for k := 0; k < x[1]; k++ {
			plan = append(plan, x[0])
		}
	}
	for k, depth := range plan {
		t := make([]byte, 0, 2*depth+16)
		for j := 0; j < depth; j++ {
			t = append(t, 0x01, 0x01)
		}
		switch k % 8 {
		case 0, 4, 6:
			t = append(t, 0x91, 0x04, 0x7F, 0xC0, 0, 0) // F4 NaN
		case 1, 3, 5:
			t = append(t, 0x81, 0x08, 0x7F, 0xF0, 0, 0, 0, 0, 0, 0) // F8 +Inf
		case 2:
			t = append(t, 0x41, 0x02, 0x80, 0x41) // a byte that is not 7-bit ASCII
		default:
			t = append(t, 0xA9, 0x04, 0x00) // cut short
		}
		msg := setLen(append([]byte{0, 0, 0, 0, 0, 1, 0x01, 0x01, 0, 0, 0, 0, 0, byte(k)}, t...))
		try(func() { hsms.Parse(msg) })
	}
}

// ---------------------------------------------------------------- TLC -> Go replay of MCRoundTrip cases

type blItem struct {
	C int      `json:"c"`
	B []int    `json:"b"`
	E []blItem `json:"e"`
}

type blCase struct {
	Msg struct {
		Sid  int    `json:"sid"`
		W    int    `json:"w"`
		S    int    `json:"s"`
		F    int    `json:"f"`
		Sys  []int  `json:"sys"`
		Item blItem `json:"item"`
	} `json:"msg"`
	Bytes []int `json:"bytes"`
}

var codeFmt = map[int]string{0: "L", 8: "B", 9: "BOOLEAN", 16: "A", 24: "I8", 25: "I1", 26: "I2", 28: "I4",
	32: "F8", 36: "F4", 40: "U8", 41: "U1", 42: "U2", 44: "U4"}

// fromByteLevel turns a byte-level item of the specification into factory arguments.
func fromByteLevel(it blItem) *GItem {
	f := codeFmt[it.C]
	g := &GItem{F: f}
	switch f {
	case "L":
		for _, k := range it.E {
			g.Kids = append(g.Kids, fromByteLevel(k))
		}
		return g
	case "A":
		g.Str = string(unJ(it.B))
		return g
	case "B":
		for _, v := range it.B {
			g.Vals = append(g.Vals, v)
		}
		return g
	case "BOOLEAN":
		for _, v := range it.B {
			g.Vals = append(g.Vals, v != 0)
		}
		return g
	}
	w := fmtSize(f)
	for i := 0; i+w <= len(it.B); i += w {
		var u uint64
		for k := 0; k < w; k++ {
			u = u<<8 | uint64(it.B[i+k])
		}
		switch f[0] {
		case 'U':
			g.Vals = append(g.Vals, u)
		case 'I':
			shift := uint(64 - 8*w)
			g.Vals = append(g.Vals, int64(u<<shift)>>shift)
		case 'F':
			if w == 4 {
				g.Vals = append(g.Vals, float64(math.Float32frombits(uint32(u))))
			} else {
				g.Vals = append(g.Vals, math.Float64frombits(u))
			}
		}
	}
	return g
}

func init() { drivers["rt-replay"] = driverRTReplay }

// rt-replay: each case of the table is built through the factories, encoded, decoded and re-encoded;
// the event carries the message and the bytes the specification demands ("want", "expect").
func driverRTReplay(c *Ctx) {
	f, err := os.Open(c.In)
	if err != nil {
		fmt.Fprintln(os.Stderr, "harness:", err)
		os.Exit(3)
	}
	defer f.Close()
	sc := bufio.NewScanner(f)
	sc.Buffer(make([]byte, 1<<20), 1<<26)
	i := -1
	for sc.Scan() {
		i++
		if !c.want(i) {
			continue
		}
		var cs blCase
		var raw map[string]interface{}
		if err := json.Unmarshal(sc.Bytes(), &cs); err != nil {
			fmt.Fprintln(os.Stderr, "harness: bad case:", err)
			os.Exit(3)
		}
		json.Unmarshal(sc.Bytes(), &raw)
		g := c.gen(i)
		var item ast.ItemNode = ast.NewEmptyItemNode()
		if cs.Msg.Item.C >= 0 {
			item = fromByteLevel(cs.Msg.Item).Build()
		}
		gm := &GMsg{Name: "", S: cs.Msg.S, F: cs.Msg.F, W: cs.Msg.W, Dir: "H<->E", Sid: cs.Msg.Sid, Sys: unJ(cs.Msg.Sys)}
		m := buildComplete(g, gm, item, g.pick(2))
		scribbleBytes(gm.Sys) // the caller goes on using its buffer: the message carries its own system bytes
		ev := decodeEvent(m.ToBytes())
		ev["ev"] = "rt"
		ev["how"] = "replay"
		ev["msg"] = projMsg(m)
		ev["want"] = raw["msg"]
		ev["expect"] = raw["bytes"]
		c.emit(i, ev)
		c.count("replay.cases")
	}
}
