package main

// C13: the 16,777,215-byte limit and the length header, for every size.
//   hdr-sweep : VerifHeaderBytes over sizes x 14 formats, as sampled points and interval summaries
//   big       : real items at the size boundaries, as run-length summaries (TLC cannot hold 16 MiB sequences)

import (
	"encoding/json"
	"fmt"
	"runtime"
	"strings"
	"sync"

	"github.com/wolimst/lib-secs2-hsms-go/pkg/ast"
	"github.com/wolimst/lib-secs2-hsms-go/pkg/parser/hsms"
)

func init() {
	drivers["hdr-sweep"] = driverHdrSweep
	drivers["big"] = driverBig
}

var typNames = map[string]string{"L": "list", "B": "binary", "BOOLEAN": "boolean", "A": "ascii",
	"I1": "i1", "I2": "i2", "I4": "i4", "I8": "i8", "U1": "u1", "U2": "u2", "U4": "u4", "U8": "u8", "F4": "f4", "F8": "f8"}

func widthOf(f string) int {
	switch f {
	case "L", "A", "B", "BOOLEAN":
		return 1
	}
	return fmtSize(f)
}

type hdrClass struct {
	err bool
	fb  int
	nl  int
	// exact: the big-endian value of the length bytes equals n * width
	exact bool
}

func classify(f string, n int) (hdrClass, []byte) {
	h, err := ast.VerifHeaderBytes(typNames[f], n)
	if err != nil {
		return hdrClass{err: true, exact: true}, nil
	}
	if len(h) < 2 {
		return hdrClass{fb: -1}, h
	}
	decl := 0
	for _, b := range h[1:] {
		decl = decl<<8 | int(b)
	}
	return hdrClass{fb: int(h[0]), nl: len(h) - 1, exact: decl == n*widthOf(f) && int(h[0]&3) == len(h)-1}, h
}

// hdr-sweep: case index = format index. Quick tier visits windows around every breakpoint plus a stride;
// thorough visits every size 0 .. max+16.
func driverHdrSweep(c *Ctx) {
	type out struct{ evs []J }
	res := make([]out, len(allFormats))
	var wg sync.WaitGroup
	sem := make(chan bool, runtime.NumCPU())
	for fi, f := range allFormats {
		if !c.want(fi) {
			continue
		}
		wg.Add(1)
		go func(fi int, f string) {
			defer wg.Done()
			sem <- true
			defer func() { <-sem }()
			w := widthOf(f)
			maxN := (1<<24-1)/w + 16
			visit := func(n int) bool {
				if c.Tier == "thorough" {
					return true
				}
				if n%257 == 0 || n < 600 || n > maxN-40 {
					return true
				}
				for _, bp := range []int{255 / w, 256 / w, 65535 / w, 65536 / w, (1<<24 - 1) / w} {
					if n >= bp-40 && n <= bp+40 {
						return true
					}
				}
				return false
			}
			var evs []J
			var cur hdrClass
			start, prevB, last, have := 0, -1, -1, false
			flush := func(end int, final bool) {
				evs = append(evs, J{"ev": "hdrivl", "f": f, "a": start, "b": end, "prevb": prevB, "final": final,
					"err": cur.err, "fb": cur.fb, "nl": cur.nl, "exact": cur.exact, "dense": c.Tier == "thorough"})
				prevB = end
			}
			for n := 0; n <= maxN; n++ {
				if !visit(n) {
					continue
				}
				cl, h := classify(f, n)
				if have && cl != cur {
					flush(last, false)
					start = n
				}
				if !have || cl != cur {
					// a sampled point at every class change, with the full header bytes
					evs = append(evs, J{"ev": "hdrpoint", "f": f, "n": n, "err": cl.err, "hdr": bytesJ(h)})
				}
				cur, have, last = cl, true, n
				if n%99991 == 0 || n == maxN {
					evs = append(evs, J{"ev": "hdrpoint", "f": f, "n": n, "err": cl.err, "hdr": bytesJ(h)})
				}
			}
			flush(last, true)
			res[fi] = out{evs}
		}(fi, f)
	}
	wg.Wait()
	for fi := range allFormats {
		for _, e := range res[fi].evs {
			c.emit(fi, e)
			c.count("sweep." + e["ev"].(string))
		}
	}
}

// ---------------------------------------------------------------- real items at the boundaries

var decodeMu sync.Mutex

type run struct {
	key   string
	val   interface{}
	count int
}

func rle(chunks func(i int) (string, interface{}), n int) []interface{} {
	var rs []run
	for i := 0; i < n; i++ {
		k, v := chunks(i)
		if len(rs) > 0 && rs[len(rs)-1].key == k {
			rs[len(rs)-1].count++
		} else {
			rs = append(rs, run{k, v, 1})
		}
		if len(rs) > 64 {
			break // not a boundary-shaped payload; the specification will reject the summary
		}
	}
	out := make([]interface{}, len(rs))
	for i, r := range rs {
		out[i] = J{"v": r.val, "n": r.count}
	}
	return out
}

// three distinguishable in-domain elements per format
func bigElems(f string) [3]interface{} {
	switch f {
	case "L":
		return [3]interface{}{ast.NewUintNode(1, 1), ast.NewUintNode(1, 2), ast.NewUintNode(1, 3)}
	case "A":
		return [3]interface{}{byte('a'), byte('m'), byte('z')}
	case "B":
		return [3]interface{}{1, 128, 255}
	case "BOOLEAN":
		return [3]interface{}{true, false, true}
	case "F4", "F8":
		return [3]interface{}{1.5, -2.25, 1e10}
	}
	switch f[0] {
	case 'I':
		return [3]interface{}{int64(-1), int64(5), int64(-128)}
	}
	return [3]interface{}{uint64(1), uint64(200), uint64(255)}
}

func elemJ(f string, v interface{}) interface{} {
	switch x := v.(type) {
	case ast.ItemNode:
		return projItem(x)
	case byte:
		return int(x)
	case int:
		return J{"b": x}
	case bool:
		return J{"t": x}
	case float64:
		return floatJ(x, fmtSize(f))
	case int64:
		return intJ(x)
	case uint64:
		return uintJ(x)
	}
	panic("elemJ")
}

func bigSizes(f string, tier string) []int {
	w := widthOf(f)
	max := (1<<24 - 1) / w
	s := []int{0, 1, 2, 255 / w, 255/w + 1, 256 / w, 256/w + 1, 65535 / w, 65535/w + 1, 65536/w + 1}
	if tier != "thorough" {
		if f == "L" {
			// a list of 16.7 M children needs gigabytes to decode: thorough tier only
			return append(s, max+1)
		}
		return append(s, max, max+1)
	}
	return append(s, max-1, max, max+1, max+2)
}

func driverBig(c *Ctx) {
	type job struct {
		idx int
		f   string
		n   int
	}
	var jobs []job
	idx := -1
	for _, f := range allFormats {
		for _, n := range bigSizes(f, c.Tier) {
			idx++
			if c.want(idx) && n >= 0 && c.Arg != "flat" {
				jobs = append(jobs, job{idx, f, n})
			}
		}
	}
	// a few at a time: one 16.7 M-element item needs about a gigabyte while it is built and decoded.
	// (the item-header hook is a package variable, so decoding itself is serialised)
	res := make([]J, len(jobs))
	var wg sync.WaitGroup
	sem := make(chan bool, 4)
	for k := range jobs {
		wg.Add(1)
		go func(k int) {
			defer wg.Done()
			sem <- true
			res[k] = bigEvent(jobs[k].f, jobs[k].n, c.Tier)
			runtime.GC()
			<-sem
		}(k)
	}
	wg.Wait()
	for k, j := range jobs {
		c.emit(j.idx, res[k])
		c.count("big." + j.f)
	}
	// several items of different length-byte classes behind each other in one message, in every order:
	// what the decoder reads for one length field must not depend on the one before
	for _, kids := range seqCases() {
		idx++
		if c.want(idx) && c.Arg != "flat" {
			c.emit(idx, seqEvent(kids))
			c.count("big.seq")
		}
	}
	// very many small items in one list - empty lists, empty binaries, lists of one empty binary - and one more list
	// behind them: well-formed, however many there are
	counts := []int{65537, 100001, 250000}
	if c.Tier == "thorough" {
		counts = append(counts, 1000000, 4000000)
	}
	for _, kind := range []string{"L0", "B0", "L1B0"} {
		for _, n := range counts {
			idx++
			if c.want(idx) {
				c.emit(idx, flatEvent(kind, n))
				c.count("big.flat")
			}
		}
	}
	routeEvents(c, &idx)
}

// routeCases: the size limit reached by other routes than a constructor - an ASCII variable filled with a string
// (unbounded, bounded above the limit, bounded at the limit), alone, in a list and in a message; in the thorough tier
// also a nested list grown past the limit by an ellipsis
func routeEvents(c *Ctx, idx *int) {
	const max = 1<<24 - 1
	for _, b := range [][2]int{{0, -1}, {0, 20000000}, {max + 1, max + 1}, {0, max}, {max, -1}} {
		for _, n := range []int{max, max + 1} {
			for _, via := range []string{"item", "list", "msg"} {
				*idx++
				if !c.want(*idx) || c.Arg == "flat" {
					continue
				}
				v := ast.NewASCIINodeVariable("v", b[0], b[1])
				vals := map[string]interface{}{"v": strings.Repeat("x", n)}
				var enc []byte
				refused, _ := try(func() {
					switch via {
					case "item":
						enc = v.FillVariables(vals).ToBytes()
					case "list":
						enc = ast.NewListNode(v).FillVariables(vals).ToBytes()
					default:
						enc = ast.NewDataMessage("", 1, 1, 0, "H->E", v).SetSessionIDAndSystemBytes(7, []byte{1, 2, 3, 4}).FillVariables(vals).ToBytes()
					}
				})
				ev := J{"ev": "bigroute", "route": "asciifill", "lo": b[0], "hi": b[1], "n": n, "via": via, "built": !refused, "enclen": len(enc), "head": []int{}}
				if len(enc) > 24 {
					ev["head"] = bytesJ(enc[:24])
				} else {
					ev["head"] = bytesJ(enc)
				}
				c.emit(*idx, ev)
				c.count("big.route")
				runtime.GC()
			}
		}
	}
	// a long list grown by an ellipsis that has items behind it (which are not repeated)
	for _, tc := range [][2]int{{63, 300000}, {1, 100000}, {200, 70000}} {
		*idx++
		if !c.want(*idx) || c.Arg == "flat" {
			continue
		}
		args := []interface{}{ast.NewUintNode(1, 0), "..."}
		for k := 0; k < tc[0]; k++ {
			args = append(args, ast.NewUintNode(1, k%256))
		}
		t := ast.NewListNode(ast.NewListNode(args...), ast.NewBooleanNode(true))
		var enc []byte
		refused, _ := try(func() { enc = t.FillVariables(map[string]interface{}{"...": tc[1]}).ToBytes() })
		ev := J{"ev": "bigroute", "route": "ellipsis", "lo": 0, "hi": 0, "n": tc[1] + 1 + tc[0], "via": "list", "built": !refused, "enclen": len(enc), "head": []int{}}
		c.emit(*idx, ev)
		c.count("big.route")
		runtime.GC()
	}
	if c.Tier != "thorough" {
		return
	}
	for _, n := range []int{max - 1, max} { // n more copies: n+1 elements
		*idx++
		if !c.want(*idx) || c.Arg == "flat" {
			continue
		}
		t := ast.NewListNode(ast.NewListNode(ast.NewUintNode(1, 1), "..."), ast.NewBooleanNode(true))
		var enc []byte
		refused, _ := try(func() { enc = t.FillVariables(map[string]interface{}{"...": n}).ToBytes() })
		ev := J{"ev": "bigroute", "route": "ellipsis", "lo": 0, "hi": 0, "n": n + 1, "via": "list", "built": !refused, "enclen": len(enc), "head": []int{}}
		if len(enc) > 24 {
			ev["head"] = bytesJ(enc[:24])
		}
		c.emit(*idx, ev)
		c.count("big.route")
		runtime.GC()
	}
}

func flatEvent(kind string, n int) J {
	kids := make([]interface{}, n)
	for i := range kids {
		switch kind {
		case "L0":
			kids[i] = ast.NewListNode()
		case "B0":
			kids[i] = ast.NewBinaryNode()
		default:
			kids[i] = ast.NewListNode(ast.NewBinaryNode())
		}
	}
	// the long list stands behind a sibling, one level further down, with another list behind it
	item := ast.NewListNode(ast.NewBinaryNode(), ast.NewListNode(ast.NewASCIINode("s"), ast.NewListNode(kids...)), ast.NewListNode(ast.NewUintNode(1, 7)))
	msg := ast.NewHSMSDataMessage("", 1, 1, 0, "H->E", item, 7, []byte{1, 2, 3, 4}).ToBytes()
	item, kids = nil, nil
	nh := 0
	var m ast.HSMSMessage
	var ok bool
	decodeMu.Lock()
	hsms.VerifItemHook = func(pos, code, nl, length int) { nh++ }
	in := exact(msg)
	panicked, _ := try(func() { m, ok = hsms.Parse(in) })
	hsms.VerifItemHook = nil
	decodeMu.Unlock()
	scribbleBytes(in)
	ev := J{"ev": "bigflat", "kind": kind, "n": n, "ok": ok && !panicked, "same": false, "msglen": len(msg), "nh": nh}
	if ok && !panicked {
		ev["same"] = string(m.ToBytes()) == string(msg)
	}
	return ev
}

type seqKid struct {
	f string
	n int
}

func seqCases() [][]seqKid {
	small, mid, large := []int{3, 255}, []int{300, 65535}, []int{65536, 70000}
	fs := []string{"B", "A", "U4", "F8", "BOOLEAN", "I2", "U1", "I8"}
	var out [][]seqKid
	k := 0
	next := func(cl []int) seqKid {
		f := fs[k%len(fs)]
		n := cl[k%2] / widthOf(f)
		k++
		if n == 0 {
			n = 1
		}
		return seqKid{f, n}
	}
	// (n is chosen so that the byte length, not the element count, falls into the class)
	perms := [][3]int{{0, 1, 2}, {0, 2, 1}, {1, 0, 2}, {1, 2, 0}, {2, 0, 1}, {2, 1, 0}}
	cls := [][]int{small, mid, large}
	for round := 0; round < 2; round++ {
		for _, p := range perms {
			out = append(out, []seqKid{next(cls[p[0]]), next(cls[p[1]]), next(cls[p[2]])})
		}
	}
	for _, pair := range [][2]int{{2, 1}, {1, 2}, {2, 0}, {1, 0}, {2, 2}, {1, 1}} {
		out = append(out, []seqKid{next(cls[pair[0]]), next(cls[pair[1]])})
	}
	// children that together, or alone with their header, are longer than the longest single item: a list's length
	// field counts elements, not bytes
	out = append(out, []seqKid{{"B", 9000000}, {"A", 9000000}}, []seqKid{{"A", 1<<24 - 1}}, []seqKid{{"U1", 1<<24 - 1}, {"B", 3}},
		[]seqKid{{"B", 11500000}, {"U1", 11500000}, {"BOOLEAN", 11500000}}) // more than 2^25 values in one message
	// the same one and two lists further down: a child that is itself a list may be longer than any single item
	// (a first kid of format "wrap" says how many one-element lists enclose the list of the others)
	out = append(out, []seqKid{{"wrap", 1}, {"A", 1<<24 - 1}}, []seqKid{{"wrap", 2}, {"B", 9000000}, {"U1", 9000000}},
		[]seqKid{{"wrap", 1}, {"I8", 70000}, {"U1", 3}}, []seqKid{{"wrap", 3}, {"A", 65536}, {"B", 65536}, {"U2", 32768}, {"F4", 16384}, {"I8", 8192}})
	return out
}

func seqEvent(kids []seqKid) J {
	wrap := 0
	if len(kids) > 0 && kids[0].f == "wrap" {
		wrap, kids = kids[0].n, kids[1:]
	}
	items := make([]interface{}, len(kids))
	kj := make([]interface{}, len(kids))
	for i, kd := range kids {
		kj[i] = J{"f": kd.f, "n": kd.n}
		el := bigElems(kd.f)
		if kd.f == "A" {
			items[i] = ast.NewASCIINode(strings.Repeat(string([]byte{el[1].(byte)}), kd.n))
			continue
		}
		vals := make([]interface{}, kd.n)
		for j := range vals {
			vals[j] = el[j%3]
		}
		switch kd.f {
		case "B":
			items[i] = ast.NewBinaryNode(vals...)
		case "BOOLEAN":
			items[i] = ast.NewBooleanNode(vals...)
		default:
			switch kd.f[0] {
			case 'I':
				items[i] = ast.NewIntNode(fmtSize(kd.f), vals...)
			case 'U':
				items[i] = ast.NewUintNode(fmtSize(kd.f), vals...)
			default:
				items[i] = ast.NewFloatNode(fmtSize(kd.f), vals...)
			}
		}
	}
	var top ast.ItemNode = ast.NewListNode(items...)
	for w := 0; w < wrap; w++ {
		top = ast.NewListNode(top)
	}
	msg := ast.NewHSMSDataMessage("", 1, 1, 0, "H->E", top, 7, []byte{1, 2, 3, 4}).ToBytes()
	decodeMu.Lock()
	r := decode(msg, exact)
	decodeMu.Unlock()
	ev := J{"ev": "bigseq", "kids": kj, "wrap": wrap, "ok": r.ok, "same": false, "msglen": len(msg)}
	hs := []interface{}{}
	for _, h := range r.hdrs {
		hj := h.(J)
		pos, nl := hj["pos"].(int), hj["nl"].(int)
		raw := []int{}
		if nl >= 0 && pos-1-nl >= 0 && pos <= len(msg) {
			raw = bytesJ(msg[pos-1-nl : pos])
		}
		hs = append(hs, J{"pos": pos, "code": hj["code"], "nl": nl, "len": hj["len"], "raw": raw})
	}
	ev["hdrs"] = hs
	if r.ok {
		ev["same"] = string(r.m.ToBytes()) == string(msg)
	}
	return ev
}

func bigEvent(f string, n int, tier string) J {
	el := bigElems(f)
	at := func(i int) interface{} {
		switch {
		case i == 0:
			return el[0]
		case i == n-1:
			return el[2]
		}
		return el[1]
	}
	ev := J{"ev": "big", "f": f, "n": n, "first": elemJ(f, el[0]), "mid": elemJ(f, el[1]), "last": elemJ(f, el[2])}
	var item ast.ItemNode
	panicked, _ := try(func() {
		if f == "A" {
			b := make([]byte, n)
			for i := range b {
				b[i] = at(i).(byte)
			}
			item = ast.NewASCIINode(string(b))
			return
		}
		vals := make([]interface{}, n)
		for i := range vals {
			vals[i] = at(i)
		}
		switch f {
		case "L":
			item = ast.NewListNode(vals...)
		case "B":
			item = ast.NewBinaryNode(vals...)
		case "BOOLEAN":
			item = ast.NewBooleanNode(vals...)
		default:
			switch f[0] {
			case 'I':
				item = ast.NewIntNode(fmtSize(f), vals...)
			case 'U':
				item = ast.NewUintNode(fmtSize(f), vals...)
			default:
				item = ast.NewFloatNode(fmtSize(f), vals...)
			}
		}
	})
	ev["built"] = !panicked
	ev["hdr"], ev["enclen"], ev["runs"], ev["size"] = []int{}, 0, []interface{}{}, -2
	ev["dec"] = J{"done": false}
	ev["msglen"], ev["msghead"] = -1, []int{}
	if panicked {
		return ev
	}
	ev["size"] = item.Size()
	enc := item.ToBytes()
	ev["enclen"] = len(enc)
	if len(enc) < 2 {
		ev["hdr"] = bytesJ(enc)
		return ev
	}
	nl := int(enc[0] & 3)
	if len(enc) < 1+nl {
		ev["hdr"] = bytesJ(enc)
		return ev
	}
	ev["hdr"] = bytesJ(enc[:1+nl])
	payload := enc[1+nl:]
	cw := widthOf(f)
	if f == "L" {
		cw = 3 // every child is <U1 k>: A5 01 k
	}
	if cw > 0 && len(payload)%cw == 0 {
		ev["runs"] = rle(func(i int) (string, interface{}) {
			ch := payload[i*cw : (i+1)*cw]
			return string(ch), bytesJ(ch)
		}, len(payload)/cw)
	} else {
		ev["runs"] = []interface{}{J{"v": []int{-1}, "n": len(payload)}}
	}
	// decode a complete message carrying the item
	skipDecode := f == "L" && n > 3000000 && tier != "thorough"
	msg := ast.NewHSMSDataMessage("", 1, 1, 0, "H->E", item, 7, []byte{1, 2, 3, 4}).ToBytes()
	item = nil
	ev["msglen"] = len(msg)
	if len(msg) >= 14 {
		ev["msghead"] = bytesJ(msg[:14])
	}
	if skipDecode {
		return ev
	}
	decodeMu.Lock()
	r := decode(msg, exact)
	decodeMu.Unlock()
	d := J{"done": true, "ok": r.ok, "nh": len(r.hdrs), "same": false, "vruns": []interface{}{}, "hasv": false}
	if len(r.hdrs) > 3 {
		d["hdrs"] = r.hdrs[:3]
	} else {
		d["hdrs"] = r.hdrs
	}
	if r.ok {
		re := r.m.ToBytes()
		d["same"] = string(re) == string(msg)
		if dm, ok := r.m.(*ast.DataMessage); ok && n <= 2200000 {
			p := projItem(ast.VerifDataItem(dm))
			d["hasv"] = true
			d["vf"] = p["f"]
			if f == "A" {
				s, _ := p["s"].([]int)
				d["vruns"] = rle(func(i int) (string, interface{}) { return fmt.Sprint(s[i]), s[i] }, len(s))
			} else if e, ok := p["e"].([]interface{}); ok {
				d["vruns"] = rle(func(i int) (string, interface{}) {
					b, _ := json.Marshal(e[i])
					return string(b), e[i]
				}, len(e))
			}
		}
	}
	ev["dec"] = d
	return ev
}
