package main

// Projection of Go values into the abstract values of the TLA+ specification.
// It never goes through String(), ToBytes(), Variables() or Size(): those are observers under test.

import (
	"math"
	"regexp"
	"sort"
	"strconv"

	"github.com/wolimst/lib-secs2-hsms-go/pkg/ast"
)

type J = map[string]interface{}

func chars(s string) []int { // bytes of a string (ASCII names, printed texts)
	r := make([]int, len(s))
	for i := 0; i < len(s); i++ {
		r[i] = int(s[i])
	}
	return r
}

func bytesJ(b []byte) []int {
	r := make([]int, len(b))
	for i, v := range b {
		r[i] = int(v)
	}
	return r
}

func unJ(a []int) []byte {
	r := make([]byte, len(a))
	for i, v := range a {
		r[i] = byte(v)
	}
	return r
}

func decDigits(s string) []int {
	r := make([]int, 0, len(s))
	for _, c := range s {
		r = append(r, int(c-'0'))
	}
	return r
}

func intJ(v int64) J {
	if v < 0 {
		return J{"neg": true, "dec": decDigits(strconv.FormatUint(uint64(-(v+1))+1, 10))}
	}
	return J{"neg": false, "dec": decDigits(strconv.FormatInt(v, 10))}
}

func uintJ(v uint64) J { return J{"neg": false, "dec": decDigits(strconv.FormatUint(v, 10))} }

func floatJ(v float64, size int) J {
	if size == 4 {
		b := math.Float32bits(float32(v))
		return J{"bits": []int{int(b >> 24), int(b >> 16 & 255), int(b >> 8 & 255), int(b & 255)},
			"txt": chars(strconv.FormatFloat(v, 'g', -1, 32))}
	}
	b := math.Float64bits(v)
	r := make([]int, 8)
	for i := 0; i < 8; i++ {
		r[i] = int(b >> (56 - 8*uint(i)) & 255)
	}
	return J{"bits": r, "txt": chars(strconv.FormatFloat(v, 'g', -1, 64))}
}

var ellRe = regexp.MustCompile(`^\.\.\.(\[(\d+)\])?$`)

// a variable as a list element or array element: {"var":chars} or {"ell":k} (k = -1 for a bare "...")
func varJ(name string) J {
	if m := ellRe.FindStringSubmatch(name); m != nil {
		if m[2] == "" {
			return J{"ell": -1}
		}
		k, err := strconv.Atoi(m[2])
		if err != nil || k > 1000000 {
			k = 1000000
		}
		return J{"ell": k}
	}
	return J{"var": chars(name)}
}

func posVars(vars map[string]int) map[int]string {
	r := map[int]string{}
	for k, v := range vars {
		r[v] = k
	}
	return r
}

func projNode(n *ast.VerifNode) J {
	switch n.Kind {
	case "none":
		return J{"f": "none"}
	case "L":
		pv := posVars(n.Vars)
		e := make([]interface{}, len(n.Items))
		for i, it := range n.Items {
			if it == nil {
				e[i] = varJ(pv[i])
			} else {
				e[i] = projNode(it)
			}
		}
		return J{"f": "L", "e": e}
	case "A":
		if n.IsValue {
			return J{"f": "A", "s": chars(n.Str)}
		}
		return J{"f": "A", "var": chars(n.VarName), "lo": boundJ(n.Min), "hi": boundJ(n.Max)}
	}
	pv := posVars(n.Vars)
	var cnt int
	var f string
	switch n.Kind {
	case "B":
		cnt, f = len(n.Bins), "B"
	case "BOOLEAN":
		cnt, f = len(n.Bools), "BOOLEAN"
	case "I":
		cnt, f = len(n.Ints), "I"+strconv.Itoa(n.ByteSize)
	case "U":
		cnt, f = len(n.Uints), "U"+strconv.Itoa(n.ByteSize)
	case "F":
		cnt, f = len(n.Floats), "F"+strconv.Itoa(n.ByteSize)
	default:
		return J{"f": "unknown"}
	}
	e := make([]interface{}, cnt)
	for i := 0; i < cnt; i++ {
		if name, ok := pv[i]; ok {
			e[i] = J{"var": chars(name)}
			continue
		}
		switch n.Kind {
		case "B":
			e[i] = J{"b": n.Bins[i]}
		case "BOOLEAN":
			e[i] = J{"t": n.Bools[i]}
		case "I":
			e[i] = intJ(n.Ints[i])
		case "U":
			e[i] = uintJ(n.Uints[i])
		case "F":
			e[i] = floatJ(n.Floats[i], n.ByteSize)
		}
	}
	return J{"f": f, "e": e}
}

// ASCII variable bounds can be as large as MaxInt64; TLC integers are 32-bit: send decimal digits
func boundJ(v int) J {
	return intJ(int64(v))
}

func projItem(n ast.ItemNode) J { return projNode(ast.VerifProject(n)) }

func waitStr(w int) string {
	switch w {
	case 0:
		return "false"
	case 1:
		return "true"
	case 2:
		return "optional"
	}
	return "invalid"
}

// header fields through the public accessors, item through the representation
func projMsg(m *ast.DataMessage) J {
	return J{"name": textChars(m.Name()), "s": m.StreamCode(), "f": m.FunctionCode(), "w": m.WaitBit(),
		"dir": m.Direction(), "sid": m.SessionID(), "sys": bytesJ(m.SystemBytes()),
		"item": projItem(ast.VerifDataItem(m))}
}

func sortedKeys(m map[string]interface{}) []string {
	r := make([]string, 0, len(m))
	for k := range m {
		r = append(r, k)
	}
	sort.Strings(r)
	return r
}
