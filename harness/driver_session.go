package main

// Growth (C14 in use): behaviours of spec/HsmsSession.tla - two HSMS entities exchanging select, deselect,
// linktest, separate, reject and data messages - are replayed with the library: every message the model sends
// is built with the library's constructor for its kind (responses from the *decoded* request) and encoded;
// every message the model receives is decoded from the bytes that travelled and classified with Type().

import (
	"bufio"
	"encoding/json"
	"fmt"
	"os"

	"github.com/wolimst/lib-secs2-hsms-go/pkg/ast"
	"github.com/wolimst/lib-secs2-hsms-go/pkg/parser/hsms"
)

func init() { drivers["session"] = driverSession }

type sessRec struct {
	Sid   int   `json:"sid"`
	B2    int   `json:"b2"`
	B3    int   `json:"b3"`
	PType int   `json:"ptype"`
	SType int   `json:"stype"`
	Sys   []int `json:"sys"`
}

type sessStep struct {
	Act   string  `json:"act"`
	E     string  `json:"e"`
	Msg   sessRec `json:"msg"`
	Reply struct {
		M    sessRec `json:"m"`
		Sent bool    `json:"sent"`
	} `json:"reply"`
}

func (r sessRec) sys4() []byte {
	if len(r.Sys) < 2 {
		return []byte{0, 0, 0, 0}
	}
	return []byte{0, byte(r.Sys[0]), 0, byte(r.Sys[1])}
}

func (r sessRec) none() bool { return r.Sid == -1 }

// build constructs the message of a record with the most specific constructor the library has for it;
// `from` is the decoded message a response answers (nil for requests)
func (r sessRec) build(from ast.HSMSMessage) (m ast.HSMSMessage) {
	sid := uint16(r.Sid)
	switch {
	case r.PType != 0 || r.SType == 8:
		return ast.NewHSMSControlMessage([]byte{byte(r.Sid >> 8), byte(r.Sid), byte(r.B2), byte(r.B3), byte(r.PType), byte(r.SType), 0, byte(r.Sys[0]), 0, byte(r.Sys[1])})
	case r.SType == 0:
		return ast.NewHSMSDataMessage("", r.B2&127, r.B3, r.B2>>7, "H<->E", ast.NewEmptyItemNode(), r.Sid, r.sys4())
	case r.SType == 1:
		return ast.NewHSMSMessageSelectReq(sid, r.sys4())
	case r.SType == 2:
		return ast.NewHSMSMessageSelectRsp(from, byte(r.B3))
	case r.SType == 3:
		return ast.NewHSMSMessageDeselectReq(sid, r.sys4())
	case r.SType == 4:
		return ast.NewHSMSMessageDeselectRsp(from, byte(r.B3))
	case r.SType == 5:
		return ast.NewHSMSMessageLinktestReq(r.sys4())
	case r.SType == 6:
		return ast.NewHSMSMessageLinktestRsp(from)
	case r.SType == 9:
		return ast.NewHSMSMessageSeparateReq(sid, r.sys4())
	}
	panic(fmt.Sprintf("session: no constructor for stype %d", r.SType))
}

func driverSession(c *Ctx) {
	f, err := os.Open(c.In)
	if err != nil {
		fmt.Fprintln(os.Stderr, "harness:", err)
		os.Exit(3)
	}
	defer f.Close()
	sc := bufio.NewScanner(f)
	sc.Buffer(make([]byte, 1<<20), 1<<24)
	i := -1
	for sc.Scan() {
		i++
		if !c.want(i) {
			continue
		}
		var steps []sessStep
		if err := json.Unmarshal(sc.Bytes(), &steps); err != nil {
			fmt.Fprintln(os.Stderr, "harness: bad behaviour:", err)
			os.Exit(3)
		}
		var raw []map[string]interface{}
		json.Unmarshal(sc.Bytes(), &raw)
		pipe := map[string][][]byte{"H": nil, "E": nil}
		peer := map[string]string{"H": "E", "E": "H"}
		for k, st := range steps {
			switch st.Act {
			case "Disconnect":
				pipe["H"], pipe["E"] = nil, nil
			case "Send":
				ev := J{"ev": "sess", "act": "Send", "rec": raw[k]["msg"], "step": k, "bytes": []int{}, "built": true}
				var b []byte
				if p, _ := try(func() { b = st.Msg.build(nil).ToBytes() }); p {
					ev["built"] = false
				}
				ev["bytes"] = bytesJ(b)
				pipe[peer[st.E]] = append(pipe[peer[st.E]], b)
				c.emit(i, ev)
			case "Recv":
				ev := J{"ev": "sess", "act": "Recv", "rec": raw[k]["msg"], "reply": raw[k]["reply"], "step": k, "desync": false,
					"bytes": []int{}, "ok": false, "type": "", "rbytes": []int{}, "rbuilt": true}
				if len(pipe[st.E]) == 0 {
					ev["desync"] = true
					c.emit(i, ev)
					continue
				}
				b := pipe[st.E][0]
				pipe[st.E] = pipe[st.E][1:]
				ev["bytes"] = bytesJ(b)
				m, ok := hsms.Parse(poisoned(b))
				ev["ok"] = ok
				if ok && m != nil {
					ev["type"] = typeOfMsg(m)
				}
				if !st.Reply.M.none() {
					var rb []byte
					rp := st.Reply.M
					built, _ := try(func() {
						if rp.SType == 7 {
							// a reject is made from the raw header of what arrived (it may not have decoded at all)
							rb = ast.NewHSMSMessageRejectReq(uint16(b[4])<<8|uint16(b[5]), b[8], b[9], b[10:14], byte(rp.B3)).ToBytes()
						} else if rp.SType == 0 {
							d := m.(*ast.DataMessage) // the secondary of a primary that asked for a reply
							rb = ast.NewHSMSDataMessage("", d.StreamCode(), d.FunctionCode()+1, 0, "H<->E", ast.NewEmptyItemNode(), d.SessionID(), d.SystemBytes()).ToBytes()
						} else {
							rb = rp.build(m).ToBytes()
						}
					})
					ev["rbuilt"] = !built
					ev["rbytes"] = bytesJ(rb)
					if st.Reply.Sent {
						pipe[peer[st.E]] = append(pipe[peer[st.E]], rb)
					}
				}
				c.emit(i, ev)
			}
		}
		c.count("session.behaviours")
	}
}
