package main

import (
	"bufio"
	"encoding/json"
	"fmt"
	"math"
	"math/big"
	"os"
	"regexp"
	"strconv"
	"strings"

	"github.com/wolimst/lib-secs2-hsms-go/pkg/ast"
	"github.com/wolimst/lib-secs2-hsms-go/pkg/parser/sml"
)

func init() {
	drivers["pp"] = driverPP
	drivers["pp-replay"] = driverPPReplay
	drivers["lit"] = driverLit
	drivers["lit-replay"] = driverLitReplay
	drivers["sizes"] = driverSizes
	drivers["layout"] = driverLayout
	drivers["concat"] = driverConcat
	drivers["hostile"] = driverHostile
}

// ---------------------------------------------------------------- C04

var smlNames = []string{"", "name", "x.", "a<b", "n/1", "Zz.9", "a\"q", "é日本", "Msg[1]", "a>b", "q?", "S", "Sx1", "F1", "e", "Yield%", "a%%b", "%s", "50%d", "%!v", "a\\b", "{x}", "`q`", "$1", "\u017f1f1", "\u017f6F11", "\u017ftatus", "\u212a1", "h\u2192e",
	"\ufeffReport", "Report\ufeff", "Lot\ufeffReport", "\ufeff", "a\u200bb", "soft\u00adhyphen", "\u2060x", "x\u180e", "\u200e\u200f", "a\u034fb"}

// expressible: a random message that SML can express (ellipses numbered in order of appearance,
// a name the header lexer reads back as one name, W only on odd functions)
func (g *Gen) expressible() *ast.DataMessage {
	gm := g.header(false)
	gm.Name = smlNames[g.pick(len(smlNames))]
	es := 0
	g.varSeq = 0
	g.names = nil
	var item ast.ItemNode = ast.NewEmptyItemNode()
	if g.pick(8) != 0 {
		var t *GItem
		switch g.pick(3) {
		case 0:
			t = g.tree(1+g.pick(3), false)
		case 1:
			t = g.tree(1+g.pick(3), true)
		default:
			t = g.treeEll(1+g.pick(3), &es)
			// the parser numbers ellipses in order of appearance
			k := 0
			var renum func(t *GItem)
			renum = func(t *GItem) {
				for _, c := range t.Kids {
					if c.F == "" && ellRe.MatchString(c.Var) {
						c.Var = fmt.Sprintf("...[%d]", k)
						k++
					} else {
						renum(c)
					}
				}
			}
			renum(t)
		}
		item = t.Build()
		if g.pick(4) == 0 {
			// strings the printer and the lexer have to get exactly right, also inside sized lists
			nasty := []string{"a\\\x01b", "100%", "a%%b", "say \"hi\"", "\\", "//", "tab\there", "C:\\recipes\\", "%d%s%v", "\\\"", "x\\", "\x7f\\\x00"}
			item = ast.NewListNode(ast.NewASCIINode(nasty[g.pick(len(nasty))]), item, ast.NewListNode(ast.NewASCIINode(nasty[g.pick(len(nasty))])))
		}
	}
	return ast.NewDataMessage(gm.Name, gm.S, gm.F, gm.W, gm.Dir, item)
}

// complete fills every variable with a value derived from its name, decides the wait bit and sets a
// session: the bytes of two equal messages completed this way are equal.
func completeBytes(m *ast.DataMessage) []int {
	var out []int
	try(func() {
		vals := map[string]interface{}{}
		for _, n := range m.Variables() {
			if ellRe.MatchString(n) {
				vals[n] = 1
			}
		}
		var x *ast.DataMessage
		if p, _ := try(func() { x = m.FillVariables(vals) }); p {
			// a template that holds a name of the shape the expansion generates (v next to v[0]) may refuse to be
			// expanded; a repeat count of 0 only removes the marker and renames nothing
			for n := range vals {
				vals[n] = 0
			}
			x = m.FillVariables(vals)
		}
		// every remaining variable: try the value kinds in turn
		for _, n := range x.Variables() {
			for _, v := range []interface{}{ast.NewBooleanNode(true), 1, true, 1.5, "", "s", "ss", "sss", "ssss", "sssss", "ssssss", "sssssss"} {
				var y *ast.DataMessage
				p, _ := try(func() { y = x.FillVariables(map[string]interface{}{n: v}) })
				if !p && len(y.Variables()) < len(x.Variables()) {
					x = y
					break
				}
			}
		}
		out = bytesJ(x.SetWaitBit(false).SetSessionIDAndSystemBytes(7, []byte{1, 2, 3, 4}).ToBytes())
	})
	if out == nil {
		out = []int{}
	}
	return out
}

func ppEvent(m *ast.DataMessage, how string) J {
	text := m.String()
	re := parseEvent(text)
	ev := J{"ev": "pp", "how": how, "orig": projMsg(m), "string": textChars(text), "re": re, "bytes": completeBytes(m),
		"vars": namesJ(m.Variables()), "rebytes": []int{}, "restring": []int{}, "revars": []interface{}{}}
	var msgs []*ast.DataMessage
	try(func() { msgs, _, _ = sml.Parse(text) })
	if len(msgs) == 1 {
		ev["rebytes"] = completeBytes(msgs[0])
		ev["restring"] = textChars(msgs[0].String())
		ev["revars"] = namesJ(msgs[0].Variables())
	}
	return ev
}

func driverPP(c *Ctx) {
	for i := 0; i < c.N; i++ {
		if !c.want(i) {
			continue
		}
		g := c.gen(i)
		g.Indexed = i%3 == 0 // names with an index behind them next to their base name: v1 and v1[0]
		g.Ladder, g.LadderTo = 20, 257
		g.Wordy = i%2 == 1
		if i%16 == 5 {
			// long runs of printable characters inside a literal, ended by a character that is printed another way
			// (a quote, a control character, DEL) or by the end of the literal; a second run behind it
			run := func(n int) string {
				pat := "recipe-step 0123456789 ABCDEFGHIJKLMNOPQRSTUVWXYZ abcdefghijklmnopqrstuvwxyz ~!@#$%^&*()_+{}|:<>?-=[];',./\\ "
				return strings.Repeat(pat, n/len(pat)+1)[:n]
			}
			n := []int{255, 256, 257, 300, 511, 512, 513, 700}[g.pick(8)]
			brk := []string{"\"", "\r", "\n", "\x00", "\x7f", "\t", "\r\n", ""}[g.pick(8)]
			lit := run(n) + brk + []string{"", "tail", run(256 + g.pick(3)), "\""}[g.pick(4)]
			m := ast.NewDataMessage("longrun", 1+g.pick(100), 1, 1, "H->E", ast.NewListNode(ast.NewASCIINode(lit), ast.NewUintNode(1, 7), ast.NewASCIINode(run(256)+"\n")))
			c.emit(i, ppEvent(m, "api"))
			c.count("pp.longrun")
			continue
		}
		if i%32 == 9 {
			// item trees nested deeper than any fixed table or guard would allow for: 63 .. 72 lists around a leaf, a sibling
			// somewhere on the way down
			d := []int{63, 64, 65, 66, 67, 72}[g.pick(6)]
			var it ast.ItemNode = []ast.ItemNode{ast.NewUintNode(1, 7), ast.NewASCIINode("deep"), ast.NewListNode(), ast.NewUintNode(2, "bottom1")}[g.pick(4)]
			sib := g.pick(d)
			for k := 0; k < d; k++ {
				if k == sib {
					it = ast.NewListNode(it, ast.NewBooleanNode(true))
				} else {
					it = ast.NewListNode(it)
				}
			}
			c.emit(i, ppEvent(ast.NewDataMessage("deep", 1+g.pick(100), 1, 1, "H->E", it), "api"))
			c.count("pp.deep")
			continue
		}
		if i%4 != 3 {
			c.emit(i, ppEvent(g.expressible(), "api"))
			c.count("pp.api")
			continue
		}
		// the converse: every message of an accepted text is printed and parsed again
		text := g.plausible()
		var msgs []*ast.DataMessage
		try(func() { msgs, _, _ = sml.Parse(text) })
		for _, m := range msgs {
			c.emit(i, ppEvent(m, "accepted"))
			c.count("pp.accepted")
		}
		if len(msgs) == 0 {
			c.emit(i, ppEvent(g.expressible(), "api"))
			c.count("pp.api")
		}
	}
}

// ---------------------------------------------------------------- C05

var smlTypes = []string{"L", "A", "B", "BOOLEAN", "F4", "F8", "I1", "I2", "I4", "I8", "U1", "U2", "U4", "U8"}
var otherLits = []string{`"C:\recipes\" "etch.rcp"`, `"a\" 0x01 "b"`, `"\" "\"`, `"x\\" "y"`, `"100%"`, `"a%%b"`, `"abc"`, `""`, `"a b"`, `"C:\dir"`, `"a\b"`, `"x//y"`, `"<L>"`, `"~!@#$%^&*()_+{}|:<>?-=[];',./"`, `"é"`, "T", "F", "t", "f", "var1", "V_2[3]", "0x41", "0X7f", "0x80"}

func caseMix(g *Gen, s string) string {
	switch g.pick(3) {
	case 0:
		return strings.ToLower(s)
	case 1:
		return strings.ToUpper(s)
	}
	return s
}

// boundaryLits: every signed / unsigned range boundary of every width, and its neighbours, in all four bases
func boundaryLits() []string {
	var out []string
	seen := map[string]bool{}
	add := func(s string) {
		if !seen[s] {
			seen[s] = true
			out = append(out, s)
		}
	}
	one := big.NewInt(1)
	for _, w := range []uint{8, 16, 32, 64} {
		half := new(big.Int).Lsh(one, w-1)
		full := new(big.Int).Lsh(one, w)
		for _, base := range []*big.Int{half, full} {
			for d := int64(-1); d <= 1; d++ {
				v := new(big.Int).Add(base, big.NewInt(d))
				for _, neg := range []bool{false, true} {
					sign := ""
					if neg {
						sign = "-"
					}
					add(sign + v.Text(10))
					add(sign + "0x" + v.Text(16))
					add(sign + "0X" + strings.ToUpper(v.Text(16)))
					add(sign + "0b" + v.Text(2))
					add(sign + "0o" + v.Text(8))
					add(sign + "0" + v.Text(8))
				}
			}
		}
	}
	return out
}

// lit: case index enumerates (type, literal, position); the literal sits alone, first, or second in the item
func driverLit(c *Ctx) {
	lits := append(append(append([]string{}, intLits...), floatLits...), otherLits...)
	for _, l := range boundaryLits() {
		dup := false
		for _, x := range lits {
			dup = dup || x == l
		}
		if !dup {
			lits = append(lits, l)
		}
	}
	idx := 0
	for _, ty := range smlTypes {
		if ty == "L" {
			continue
		}
		for _, lit := range lits {
			for pos := 0; pos < 3; pos++ {
				if c.want(idx) {
					g := c.gen(idx)
					good := map[string]string{"A": `"ok"`, "B": "7", "BOOLEAN": "T", "F4": "1.5", "F8": "2.5"}[ty]
					if good == "" {
						good = "1"
					}
					vals := []string{lit}
					if pos == 1 {
						vals = []string{good, lit}
					} else if pos == 2 {
						vals = []string{lit, good}
					}
					l := lit
					if !strings.HasPrefix(l, `"`) && !strings.HasPrefix(l, "var") && !strings.HasPrefix(l, "V_") {
						vals[pos%2] = caseMix(g, lit)
						if pos == 2 {
							vals[0] = caseMix(g, lit)
						}
					}
					text := fmt.Sprintf("S1F1 W H->E\n<%s %s>\n.", caseMix(g, ty), strings.Join(vals, " "))
					ev := parseEvent(text)
					ev["ev"], ev["how"] = "parse", "lit"
					c.emit(idx, ev)
					c.count("lit." + ty)
				}
				idx++
			}
		}
	}
	// F4 / F8 literals next to the midpoint between two neighbouring floats of the narrower width (where rounding twice goes wrong)
	for k := 0; k < 150; k++ {
		if c.want(idx) {
			g := c.gen(idx)
			f := g.floatVal(4)
			up := float64(math.Nextafter32(float32(f), float32(math.Inf(1))))
			mid := (f + up) / 2
			lits := []string{strconv.FormatFloat(mid, 'e', 20, 64), strconv.FormatFloat(math.Nextafter(mid, math.Inf(1)), 'e', 20, 64),
				strconv.FormatFloat(math.Nextafter(mid, math.Inf(-1)), 'e', 20, 64), strconv.FormatFloat(f, 'g', -1, 32)}
			text := fmt.Sprintf("S1F1 W H->E\n<F4 %s>\n.\nS1F1 W H->E\n<F8 %s>\n.", strings.Join(lits, " "), strings.Join(lits, " "))
			ev := parseEvent(text)
			ev["ev"], ev["how"] = "parse", "midpoint"
			c.emit(idx, ev)
			c.count("lit.midpoint")
		}
		idx++
	}
	// the same literal text in neighbouring items of different types: what it denotes depends on the item it stands in,
	// not on what was read just before
	numTypes := []string{"F4", "F8", "I1", "I2", "I4", "I8", "U1", "U2", "U4", "U8", "B"}
	for _, lit := range []string{"0.1", "3.4028235e38", "1e39", "16777217", "1.0000000596046448", "-0", "1e-46", "255", "256", "-1", "-128", "65535", "65536",
		"2147483648", "4294967295", "0x80", "0xFFFF", "0b11111111", "1", "0", "1.5", "9223372036854775807", "9223372036854775808"} {
		for a, ta := range numTypes {
			for b, tb := range numTypes {
				if a == b || (a+b)%3 != 0 && !(ta[0] == 'F' && tb[0] == 'F') {
					continue // every float pair, a third of the others
				}
				if c.want(idx) {
					text := fmt.Sprintf("S1F1 W H->E\n<L <%s 1 %s> <%s %s 1> <%s %s>>\n.", ta, lit, tb, lit, ta, lit)
					ev := parseEvent(text)
					ev["ev"], ev["how"] = "parse", "neighbours"
					c.emit(idx, ev)
					c.count("lit.neighbours")
				}
				idx++
			}
		}
	}
	// random plausible texts on top
	for k := 0; k < c.N; k++ {
		if c.want(idx) {
			g := c.gen(idx)
			ev := parseEvent(g.plausible())
			ev["ev"], ev["how"] = "parse", "plausible"
			c.emit(idx, ev)
			c.count("lit.plausible")
		}
		idx++
	}
}

// ---------------------------------------------------------------- C15

func driverSizes(c *Ctx) {
	idx := 0
	val := map[string]string{"L": "<U1 1>", "A": "0x41", "B": "1", "BOOLEAN": "T", "F4": "1.5", "F8": "1.5"}
	emitText := func(text, how string) {
		if c.want(idx) {
			ev := parseEvent(text)
			ev["ev"], ev["how"] = "parse", how
			c.emit(idx, ev)
			c.count("sizes." + how)
		}
		idx++
	}
	for _, ty := range smlTypes {
		v := val[ty]
		if v == "" {
			v = "5"
		}
		for form := 0; form < 4; form++ {
			top := 3
			if c.Tier == "thorough" {
				top = 5
			}
			for lo := 0; lo <= top; lo++ {
				for hi := 0; hi <= top; hi++ {
					if (form == 0 || form == 1) && hi != 0 {
						continue // forms [n] and [n..] have one number
					}
					if form == 2 && lo != 0 {
						continue
					}
					for n := 0; n <= top; n++ {
						var sz string
						switch form {
						case 0:
							sz = fmt.Sprintf("[%d]", lo)
						case 1:
							sz = fmt.Sprintf("[%d..]", lo)
						case 2:
							sz = fmt.Sprintf("[..%d]", hi)
						default:
							sz = fmt.Sprintf("[%d..%d]", lo, hi)
						}
						if (lo+hi+n)%3 == 0 {
							sz = strings.Replace(strings.Replace(sz, "[", "[ ", 1), "..", " .. ", 1)
						}
						vals := strings.TrimSpace(strings.Repeat(v+" ", n))
						emitText(fmt.Sprintf("S1F1 W H->E\n<L <%s%s %s>>\n.", ty, sz, vals), "small")
					}
				}
			}
		}
		// huge and overflowing bounds
		for _, sz := range []string{"[99999999999999999999]", "[0..99999999999999999999]", "[99999999999999999999..]", "[9223372036854775807..9223372036854775808]",
			"[9223372036854775808..9223372036854775807]", "[18446744073709551616..1]", "[..18446744073709551616]", "[4294967296]", "[2147483648..]", "[007]", "[1..1]", "[2..1]", "[010]", "[08]", "[001]", "[0010..011]", "[..010]", "[09..]", "[00]"} {
			emitText(fmt.Sprintf("S1F1 W H->E\n<%s%s %s>\n.", ty, sz, v), "huge")
		}
	}
	// sized lists whose children carry repeat markers or variables somewhere below (child, grandchild), or hold them
	// directly: the count of the sized list is still what is written between its brackets
	for _, body := range []string{`<L <A "x"> ...> <A "y">`, `<L <L <U1 v> ...>> <A "y">`, `<L <L <U1 v> ...> ...> <B 1> <B 2>`,
		`<U1 a> ... <U1 b>`, `v w`, `<L x ...>`, `<A "y"> <L <A[2] s> ...>`, `<L[1] <L[2] <U1 1> ...>>`} {
		for n := 0; n <= 4; n++ {
			for _, sz := range []string{fmt.Sprintf("[%d]", n), fmt.Sprintf("[%d..]", n), fmt.Sprintf("[..%d]", n), fmt.Sprintf("[%d..%d]", n, n+1)} {
				emitText(fmt.Sprintf("S1F1 W H->E\n<L%s %s>\n.", sz, body), "below")
			}
		}
	}
	// a size violation behind a declaration that spans several lines (in an enclosing list, a sibling, the item itself,
	// an earlier message): the error is reported at *its* declaration, line and column
	for _, ml := range []string{"[2\n]", "[\n2]", "[ 1 ..\n 2 ]", "[1 // lower\n..2]", "[\r\n1\r\n..\r\n2\r\n]", "[2 //c\n//d\n]",
		"[1 // see note [1]\n ..2]", "[ // [2..4]\n 2 ]", "[1 // a\n // b\n ..2]"} {
		for _, ty := range []string{"U1", "A", "L", "F8", "BOOLEAN"} {
			v := val[ty]
			if v == "" {
				v = "5"
			}
			three := strings.TrimSpace(strings.Repeat(v+" ", 3))
			two := strings.TrimSpace(strings.Repeat(v+" ", 2))
			emitText(fmt.Sprintf("S1F1 W H->E <L%s <%s[1] %s> <B 1>> .", ml, ty, three), "multiline")            // enclosing list declared over lines
			emitText(fmt.Sprintf("S1F1 W H->E <L <%s%s %s> <%s[1] %s>> .", ty, ml, two, ty, three), "multiline") // a sibling before
			emitText(fmt.Sprintf("S1F1 W H->E <%s%s %s> .", ty, ml, three), "multiline")                         // the item itself
			emitText(fmt.Sprintf("S1F1 <%s%s %s> .\nS1F3 W <%s[1] %s> .", ty, ml, two, ty, three), "multiline")  // an earlier message
			emitText(fmt.Sprintf("S1F1 W H->E <L <%s%s %s> <%s [0] %s> <U1 300>> .", ty, ml, two, ty, v), "multiline")
		}
	}
	// ASCII variables: bounds kept, printed back, enforced when filled
	forms := []string{"", "[0]", "[3]", "[2..]", "E[2..4]", "E[3]", "E[1..]", "E[..2]", "B[2..3]", "B[1]", "B[..4]", "[08..010]", "[010]", "[007..]", "[..4]", "[1..3]", "[0..0]", "[5..5]", "[ 2 .. 6 ]", "[7..]", "[..0]", "[3..2]", "[18446744073709551616]", "[1..99999999999999999999]"}
	for _, sz := range forms {
		if c.want(idx) {
			// E: the variable sits in a group that an ellipsis repeats; B: ... and is filled in the same call as the ellipsis
			viaEll := strings.HasPrefix(sz, "E") || strings.HasPrefix(sz, "B")
			sameCall := strings.HasPrefix(sz, "B")
			sz = strings.TrimPrefix(strings.TrimPrefix(sz, "E"), "B")
			text := fmt.Sprintf("S1F1 W H->E\n<L <A%s name1>>\n.", sz)
			if viaEll {
				text = fmt.Sprintf("S1F1 W H->E\n<L <A%s name1> ...>\n.", sz)
			}
			ev := parseEvent(text)
			ev["ev"], ev["how"] = "asciivar", "asciivar"
			fills := []interface{}{}
			var msgs []*ast.DataMessage
			try(func() { msgs, _, _ = sml.Parse(text) })
			ev["printed"] = []int{}
			ev["viaell"], ev["otherlen"] = viaEll, 0
			if len(msgs) == 1 {
				ev["otherlen"] = maxLenOf(msgs[0])
				ev["printed"] = textChars(msgs[0].String())
				tmpl, name := msgs[0], "name1"
				if viaEll && !sameCall {
					// expand the group once, then fill the renamed variable of the first copy; the second is removed again
					try(func() {
						tmpl = tmpl.FillVariables(map[string]interface{}{"...[0]": 1}).FillVariables(map[string]interface{}{"name1[1]": strings.Repeat("x", maxLenOf(tmpl))})
					})
					name = "name1[0]"
				}
				for n := 0; n <= 9; n++ {
					s := strings.Repeat("x", n)
					var filled *ast.DataMessage
					refused, _ := try(func() {
						if sameCall {
							filled = tmpl.FillVariables(map[string]interface{}{"...[0]": 1, "name1[0]": s, "name1[1]": strings.Repeat("x", maxLenOf(tmpl))})
						} else {
							filled = tmpl.FillVariables(map[string]interface{}{name: s})
						}
					})
					f := J{"len": n, "refused": refused, "item": J{"f": "none"}}
					if !refused {
						f["item"] = projItem(ast.VerifDataItem(filled))
					}
					fills = append(fills, f)
				}
				// the bytes of a string instead of the string (not a documented fill-in type): refused, or taken like the string
				if !sameCall {
					for _, n := range []int{0, 1, 3, 5, 9} {
						b := []byte(strings.Repeat("x", n))
						var filled *ast.DataMessage
						refused, _ := try(func() { filled = tmpl.FillVariables(map[string]interface{}{name: b}) })
						f := J{"len": n, "refused": refused, "item": J{"f": "none"}, "foreign": true}
						if !refused {
							f["item"] = projItem(ast.VerifDataItem(filled))
						}
						fills = append(fills, f)
					}
				}
			}
			ev["fills"] = fills
			c.emit(idx, ev)
			c.count("sizes.asciivar")
		}
		idx++
	}
}

// maxLenOf: a length the first ASCII variable of the message accepts for sure (its lower bound)
func maxLenOf(m *ast.DataMessage) int {
	n := 0
	var walk func(v *ast.VerifNode)
	walk = func(v *ast.VerifNode) {
		if v.Kind == "A" && !v.IsValue && v.Min > n {
			n = v.Min
		}
		for _, k := range v.Items {
			if k != nil {
				walk(k)
			}
		}
	}
	walk(ast.VerifProject(ast.VerifDataItem(m)))
	return n
}

// ---------------------------------------------------------------- C08

// lexemes of a plausible message, one string per token (a size declaration with inner blanks is one lexeme)
func (g *Gen) lexemes() []string {
	var t []string
	nm := 1 + g.pick(2)
	for m := 0; m < nm; m++ {
		t = append(t, fmt.Sprintf("S%dF%d", g.pick(128), g.pick(256)))
		if g.pick(2) == 0 {
			t = append(t, []string{"W", "[W]"}[g.pick(2)])
		}
		if g.pick(4) != 0 {
			t = append(t, []string{"H->E", "H<-E", "H<->E"}[g.pick(3)])
		}
		if g.pick(2) == 0 {
			t = append(t, []string{"Name", "n.1", "x<y", "Lot/Wafer", "a:", "/b/c"}[g.pick(6)])
		}
		if g.pick(6) != 0 {
			t = append(t, g.itemLexemes(2)...)
		}
		if g.pick(10) != 0 {
			t = append(t, ".")
		}
	}
	// damage: sometimes drop or duplicate a token
	if g.pick(4) == 0 && len(t) > 2 {
		k := g.pick(len(t))
		if g.pick(2) == 0 {
			t = append(t[:k], t[k+1:]...)
		} else {
			t = append(t[:k+1], t[k:]...)
		}
	}
	return t
}

func (g *Gen) itemLexemes(depth int) []string {
	ty := smlTypes[g.pick(len(smlTypes))]
	if depth == 0 && ty == "L" {
		ty = "I2"
	}
	t := []string{"<", ty}
	n := g.pick(4)
	if g.pick(3) == 0 {
		t = append(t, []string{fmt.Sprintf("[%d]", n), fmt.Sprintf("[%d..%d]", g.pick(2), n+g.pick(2)), "[ 1 .. ]", fmt.Sprintf("[..%d]", n)}[g.pick(4)])
	}
	for i := 0; i < n; i++ {
		switch ty {
		case "L":
			switch g.pick(6) {
			case 0:
				t = append(t, g.newVar())
			case 1:
				if i > 0 {
					t = append(t, "...")
				}
			default:
				t = append(t, g.itemLexemes(depth-1)...)
			}
		case "A":
			t = append(t, []string{`"abc"`, `"a b"`, "0x41", `"x//y"`, "10", g.newVar()}[g.pick(6)])
		case "BOOLEAN":
			t = append(t, []string{"T", "F", g.newVar()}[g.pick(3)])
		case "F4", "F8":
			t = append(t, []string{"1.5", "-2e3", "1E-3", ".5", "1e39", g.newVar()}[g.pick(6)])
		case "B":
			t = append(t, []string{"0", "255", "0xFF", "0b101", "256", g.newVar()}[g.pick(6)])
		default:
			t = append(t, []string{"1", "-1", "0x7F", "0XfF", "0b11", "0o17", "300", "70000", g.newVar(), "1.5"}[g.pick(10)])
		}
	}
	return append(t, ">")
}

var commentTexts = []string{" was:\r <U1 2>", " 10%\rdone", " a\rb", "", " c", " comment with words", " <L> . S1F1 \"", " é", " caf\u00e0", " \u0445", " \u2003", " x\u00a0", " \u0085", " tab\t", " //", " \"", "\xff", " [1..2]"}

func (g *Gen) separator(first, last bool) string {
	var sb strings.Builder
	n := 1 + g.pick(2)
	if first && g.pick(2) == 0 {
		n = 0
	}
	for i := 0; i < n; i++ {
		switch g.pick(8) {
		case 0:
			sb.WriteString("\t")
		case 1:
			sb.WriteString("\n")
		case 2:
			sb.WriteString("\r\n")
		case 3:
			sb.WriteString("  ")
		case 4, 5:
			lead := " "
			if i == 0 && !first && g.pick(3) == 0 {
				lead = "" // the comment directly behind the token
			}
			sb.WriteString(lead + "//" + commentTexts[g.pick(len(commentTexts))] + []string{"\n", "\r\n", " \n", "\t\r\n"}[g.pick(4)])
		default:
			sb.WriteString(" ")
		}
	}
	if last && g.pick(3) == 0 {
		sb.WriteString(" //" + commentTexts[g.pick(len(commentTexts))]) // a comment closed by the end of the text
	}
	return sb.String()
}

func isHexOrPrefixed(s string) bool {
	return len(s) > 0 && (s[0] >= '0' && s[0] <= '9' || s[0] == '-' || s[0] == '+' || s[0] == '.')
}

// flipCase changes the letter case of a lexeme where SML is case-insensitive
func caseFlippable(lex string, inHeader bool) bool {
	up := strings.ToUpper(lex)
	flippable := false
	switch {
	case isHexOrPrefixed(lex):
		flippable = !inHeader // in a header a number-like word is a message name
	case !inHeader:
		for _, ty := range smlTypes {
			if up == ty {
				flippable = true
			}
		}
		if up == "T" || up == "F" {
			flippable = true
		}
	case inHeader:
		flippable = sfRe.MatchString(lex) || up == "W" || up == "[W]" || up == "H->E" || up == "H<-E" || up == "H<->E"
	}
	return flippable
}

func (g *Gen) flipCase(lex string, inHeader bool, idx int) string {
	up := strings.ToUpper(lex)
	if !caseFlippable(lex, inHeader) {
		return lex
	}
	switch g.pick(3) {
	case 0:
		return strings.ToLower(lex)
	case 1:
		return up
	}
	return lex
}

var varNameRe = regexp.MustCompile(`\b((?:v|x_|Name|_q|t|fv|l|b|a1)[0-9]+)\b`)
var sfRe = regexp.MustCompile(`^[Ss][0-9]+[Ff][0-9]+$`)
var sizeLexRe = regexp.MustCompile(`^\[ ?([0-9]*) ?(\.\.)? ?([0-9]*) ?\]$`)

// respace re-renders a size declaration with other white space between its parts (still one token)
func (g *Gen) respace(lex string) string {
	m := sizeLexRe.FindStringSubmatch(lex)
	if m == nil {
		return lex
	}
	ws := func() string {
		return []string{"", "", " ", "\t", "\n", "\r\n", " \r\n ", " // c\n", "// [9]\r\n", "\n//\n", " // a\n // b\n", "\n\n//x\r\n\t//y ]\n"}[g.pick(12)]
	}
	out := "[" + ws()
	for _, part := range m[1:] {
		if part != "" {
			out += part + ws()
		}
	}
	return out + "]"
}

func render(g *Gen, toks []string, flip bool) string {
	var sb strings.Builder
	inHeader, hidx := true, 0
	for i, t := range toks {
		sb.WriteString(g.separator(i == 0, false))
		lex := t
		if flip {
			lex = g.flipCase(t, inHeader, hidx)
			if !inHeader && strings.HasPrefix(lex, "[") {
				lex = g.respace(lex)
			}
		}
		sb.WriteString(lex)
		if inHeader {
			hidx++
		}
		if t == "<" {
			inHeader = false
		}
		if t == "." {
			inHeader, hidx = true, 0
		}
	}
	sb.WriteString(g.separator(false, true))
	return sb.String()
}

func driverLayout(c *Ctx) {
	for i := 0; i < c.N; i++ {
		if !c.want(i) {
			continue
		}
		g := c.gen(i)
		var toks []string
		family := "tokens"
		if i%5 == 4 {
			// tokens of the printed form of a random message (always valid)
			printed := g.expressibleNoStrings().String()
			k := strings.Index(printed, "\n") // the header line holds H->E etc.: only the item part has < and > as tokens
			toks = append(strings.Fields(printed[:k]), strings.Fields(strings.NewReplacer("<", " < ", ">", " > ").Replace(printed[k:]))...)
			family = "printed"
		} else {
			toks = g.lexemes()
		}
		t1 := strings.Join(toks, " ")
		if i%23 == 7 {
			// K2 family: a line break inside a size declaration, then a comment at the end of that line
			t1 = "S1F1 W H->E <A[1\n..3] \"ab\"> ."
			t2 := "S1F1 W H->E <A[1 // lower bound\n..3] \"ab\"> ."
			c.emit(i, J{"ev": "layout", "family": "comment-in-size", "r1": parseEvent(t1), "r2": parseEvent(t2)})
			c.count("layout.comment-in-size")
			continue
		}
		t2 := render(g, toks, true)
		c.emit(i, J{"ev": "layout", "family": family, "r1": parseEvent(t1), "r2": parseEvent(t2)})
		c.count("layout." + family)
	}
}

// expressibleNoStrings: an expressible message without ASCII literals (whose contents would be split into "tokens")
func (g *Gen) expressibleNoStrings() *ast.DataMessage {
	for {
		m := g.expressible()
		if !strings.Contains(m.String(), `"`) && !strings.Contains(m.Name(), "<") && !strings.Contains(m.Name(), ">") && !strings.ContainsAny(m.Name(), "\"") {
			return m
		}
	}
}

// ---------------------------------------------------------------- C19

func driverConcat(c *Ctx) {
	seps := []string{"", " ", "\n", "\r\n", " // c\n", "\n// a comment line\n\n", "\t",
		"// a\rb <L> .\n", " // x\r S9F9 W .\r\n", "//\r\n", " //\"q\rz\"\n"} // (a lone CR does not end a comment)
	for i := 0; i < c.N; i++ {
		if !c.want(i) {
			continue
		}
		g := c.gen(i)
		g.Ladder, g.LadderTo = 25, 65
		n := 2 + g.pick(3)
		var parts []string
		switch i % 8 {
		case 4:
			// repeat markers written with a number of their own in a spelling the printer would not use (leading zeros), in
			// one message; plain and canonical ones in the messages around it - the names are per message and as written rules say
			spell := [][]string{{"...[00]", "...[01]"}, {"...[0]", "...[01]"}, {"...[000]", "...[1]"}, {"...", "..."}, {"...[0]", "...[1]"}, {"...[0]", "...[001]"}}
			for k := 0; k < n; k++ {
				sp := spell[g.pick(len(spell))]
				parts = append(parts, fmt.Sprintf("S%dF%d W H->E\n<L <L <U1 va> %s> <L <A vb> %s> >\n.", 1+k, 1+2*g.pick(5), sp[0], sp[1]))
			}
		case 5:
			// the same literal text in items of different types (widths), one per message: what a literal denotes
			// depends on the item it stands in, not on where the text was seen before
			lits := []string{"0.10000000000000000555", "1.00000005960464478", "16777217.000000001", "3.4028235677973366e38", "0.1000000014901161",
				"7.006492321624086e-46", "123456789.123456789123456789", "1e-10000000000000000000", "0.30000000000000004440892098500626", "255", "65535", "4294967295", "1"}
			lit := lits[g.pick(len(lits))]
			types := []string{"F4", "F8", "F4", "F8", "F4"}
			if !strings.ContainsAny(lit, ".e") {
				types = []string{"U1", "U2", "I2", "U4", "I8", "F4", "F8", "B", "A"}
			}
			var fit []string // the types that take this literal
			for _, ty := range types {
				if _, errs, _ := sml.Parse(fmt.Sprintf("S1F1 <%s %s> .", ty, lit)); len(errs) == 0 {
					fit = append(fit, ty)
				}
			}
			types = fit
			g.r.Shuffle(len(types), func(a, b int) { types[a], types[b] = types[b], types[a] })
			for k := 0; k < n; k++ {
				parts = append(parts, fmt.Sprintf("S1F%d <L <%s %s> <%s %s>> .", 2*k+1, types[k%len(types)], lit, types[(k+1)%len(types)], lit))
			}
		case 6:
			// a message with many variables, then messages that use the same names again
			cnt := []int{8, 16, 17, 31, 32, 33, 40, 64, 65, 100, 129, 257}[g.pick(12)]
			if i%64 == 6 {
				cnt = []int{1025, 1030, 2100}[g.pick(3)] // more names than any fixed table would hold
			}
			var sb strings.Builder
			sb.WriteString("S1F1 W <L")
			for k := 0; k < cnt; k++ {
				switch k % 4 {
				case 0:
					fmt.Fprintf(&sb, " slot%d", k)
				case 1:
					fmt.Fprintf(&sb, " <U1 slot%d>", k)
				case 2:
					fmt.Fprintf(&sb, " <A slot%d>", k)
				default:
					fmt.Fprintf(&sb, " <L <F4 1.5 slot%d>>", k)
				}
			}
			if g.pick(2) == 0 {
				sb.WriteString(" <L <B tail9> ...>") // a repeat marker of its own: the numbering starts again in the next message
			}
			sb.WriteString("> .")
			big := sb.String()
			small := func(k int) string {
				return fmt.Sprintf("S2F%d <L slot%d <U2 slot%d slot0> <L slot1 ...>> .", 2*k+1, 2+g.pick(cnt-3), cnt-1)
			}
			pos := g.pick(n)
			twice := g.pick(2) == 0 // the large message a second time (under another header): the same names at the same positions
			for k := 0; k < n; k++ {
				if k == pos || (twice && k == (pos+1)%n) {
					parts = append(parts, strings.Replace(big, "S1F1 W", fmt.Sprintf("S%dF1 W", k+1), 1))
				} else {
					parts = append(parts, small(k))
				}
			}
		case 7:
			// ASCII variables whose name and lower bound read alike when written next to each other: v1 from 2 / v from 12
			base := []string{"v", "PPID", "x_"}[g.pick(3)]
			d, m, hi := 1+g.pick(2), []int{0, 2, 5}[g.pick(3)], []string{"40", ""}[g.pick(2)]
			a := fmt.Sprintf("S1F1 <L <A[%d..%s] %s%d> <U1 7>> .", m, hi, base, d)
			b := fmt.Sprintf("S1F3 W <L <A[%d%d..%s] %s>> .", d, m, hi, base)
			cmsg := fmt.Sprintf("S1F5 <A %s%d0> .", base, d)
			dmsg := fmt.Sprintf("S1F7 <A[%d0..] %s> .", d, base)
			all := [][]string{{a, b}, {b, a}, {cmsg, dmsg, a}, {a, cmsg, b, dmsg}}[g.pick(4)]
			parts = append(parts, all...)
			n = len(parts)
		}
		for len(parts) < n {
			g.varSeq = 0 // the same variable names and ellipsis numbers come back in every message
			var t string
			if g.pick(2) == 0 {
				t = g.expressible().String()
			} else {
				t = g.plausible()
				t = strings.TrimRight(t, " \n\r\t")
				if k := strings.LastIndex(t, "."); k >= 0 {
					t = t[:k+1] // end at the terminator (a trailing comment would swallow the next message)
				}
			}
			if len(parts)%2 == 1 && g.pick(2) == 0 {
				// the same base names with an array-like index in the next message
				t = varNameRe.ReplaceAllString(t, "${1}[0]")
			}
			if g.pick(3) == 0 && !strings.Contains(t, "//") {
				// the whole message on one line: strings, sizes and the terminator share the line with whatever follows
				t = strings.Join(strings.Fields(strings.ReplaceAll(t, "\r\n", "\n")), " ")
				if !strings.HasSuffix(t, ".") {
					continue
				}
			}
			if g.pick(5) == 0 {
				// a character in front of the text that an editor or a file concatenation may leave there: the part is used
				// if the parser accepts it alone
				t = []string{"\ufeff", "\u00a0", "\f", "\v", "\u0085", "\u200b", "\u2028", "\u3000", "\ufeff\n", "\x1a"}[g.pick(10)] + t
			}
			_, errs, _ := sml.Parse(t)
			if len(errs) == 0 && strings.HasSuffix(t, ".") {
				parts = append(parts, t)
			}
		}
		whole := ""
		var sj, pj []interface{}
		for k, p := range parts {
			pj = append(pj, parseEvent(p))
			whole += p
			if k < len(parts)-1 {
				s := seps[g.pick(len(seps))]
				sj = append(sj, textChars(s))
				whole += s
			}
		}
		c.emit(i, J{"ev": "concat", "parts": pj, "seps": sj, "whole": parseEvent(whole)})
		c.count("concat.cases")
	}
}

// ---------------------------------------------------------------- C06 (isolated worker)

func hostileCases(seed int64, tier string) []string {
	g := NewGen(seed)
	var cs []string
	add := func(s string) { cs = append(cs, s) }
	// absurd sizes, also duplicated ASCII variables
	for _, n := range []string{"20000000000", "99999999999999999999", "16777216", "16777215", "9223372036854775807"} {
		add(fmt.Sprintf("S1F1 W H->E <L <A[%s] x> <A[%s] x>> .", n, n))
		add(fmt.Sprintf("S1F1 W H->E <L <A[%s..] x> <A[..%s] y> <A[%s] x>> .", n, n, n))
		add(fmt.Sprintf("S1F1 W H->E <U1[%s] 1> .", n))
	}
	add("S1F1 W H->E <L" + strings.Repeat(" <A[16777215] x>", 300) + "> .")
	// header codes out of range in every combination with a wait bit
	for _, sf := range []string{"S1F257", "S1F999", "S128F257", "S6F99999999999999999999", "S999F1", "S0F256"} {
		for _, w := range []string{" W", " [W]", ""} {
			add(sf + w + " .")
			add(sf + w + " H->E name <U1 1> .")
		}
	}
	// closed nesting with a variable at the bottom, at every level, and in the middle
	for _, d := range []int{10, 25, 40, 200} {
		add("S1F1 W H->E " + strings.Repeat("<L ", d) + "<U1 v>" + strings.Repeat(">", d) + " .")
		add("S1F1 W H->E " + strings.Repeat("<L x ", d) + strings.Repeat(">", d) + " .")
		add("S1F1 W H->E " + strings.Repeat("<L ", d/2) + "<L a b c ...>" + strings.Repeat(">", d/2) + " .")
	}
	// exotic white space in every place, invalid UTF-8
	for _, ws := range []string{"\v", "\f", "\u0085", "\u00a0", "\u2003", "\u3000", "\xff", "\xc3", "\xe2\x80", "\x00"} {
		add("S1F1 " + ws + "\n.")
		add("S1F1 W H->E" + ws + "name" + ws + " <L> .")
		add("S1F1 W H->E n" + ws + "m <A \"a\"" + ws + "> .")
		add(ws + "S1F1 W H->E <A \"" + ws + "\"> ." + ws)
		add("S1F1 W H->E <U1 1" + ws + "2> . //" + ws)
	}
	// long tokens
	big := 65536
	if tier == "thorough" {
		big = 1 << 20
	}
	add("S1F1 W H->E <U8 " + strings.Repeat("9", big) + "> .")
	add("S1F1 W H->E <A \"" + strings.Repeat("a", big) + "\"> .")
	add("S1F1 W H->E " + strings.Repeat("n", big) + " <A \"x\"> .")
	add("S1F1 W H->E <A[" + strings.Repeat("1", big) + "] \"x\"> .")
	add("S" + strings.Repeat("1", big) + "F1 .")
	add("S1F1 W H->E <F8 1e" + strings.Repeat("9", 5000) + " 0." + strings.Repeat("0", 5000) + "1> .")
	add("// " + strings.Repeat("c", big))
	add(strings.Repeat("S1F1 W .\n", 5000))
	add("S1F1 W H->E <L " + strings.Repeat("<U1 1> ", 20000) + "> .")
	add("S1F1 W H->E <U1 " + strings.Repeat("1 ", 50000) + "> .")
	// very many tokens of one kind in a row, with nothing in between that the parser takes out of the lexer's channel for
	// itself: comment lines (banners, commented-out messages), blank lines, terminators
	for _, n := range []int{31, 32, 33, 34, 63, 64, 65, 100, 1000, 4097} {
		cm := strings.Repeat("// commented out: S1F1 W <L> .\n", n)
		add(cm + "S1F1 W H->E <U1 1> .")
		add("S1F1 W .\n" + cm + "S1F3 W <L <U1 1>\n" + strings.Repeat("  // inside a list\r\n\n", n) + "> .\n" + strings.Repeat("\t//\n", n) + "// the end, no line break")
		add("S1F1 W H->E <A[2" + strings.Repeat("\n// in a size\n", n) + "] \"ab\"> .")
		add(strings.Repeat("\n", n) + "S1F1 W" + strings.Repeat(" \n", n) + "." + strings.Repeat("\n", n))
	}
	// deep nesting
	depths := []int{100, 1000, 5000}
	if tier == "thorough" {
		depths = append(depths, 20000)
	}
	for _, d := range depths {
		add("S1F1 W H->E " + strings.Repeat("<L ", d) + strings.Repeat(">", d) + " .")
		add("S1F1 W H->E " + strings.Repeat("<L ", d))
		add("S1F1 W H->E " + strings.Repeat("<L v ... ", d) + strings.Repeat(">", d) + " .")
	}
	// soups
	for k := 0; k < 300; k++ {
		add(g.soup(1 + g.pick(40)))
	}
	return cs
}

func driverHostile(c *Ctx) {
	cases := hostileCases(c.Seed, c.Tier)
	for i := c.From; i < len(cases); i++ {
		if !c.want(i) {
			continue
		}
		text := cases[i]
		head := text
		if len(head) > 60 {
			head = head[:60]
		}
		c.emit(i, J{"ev": "begin", "variant": 0, "len": len(text), "head": textChars(head)})
		c.out.Flush()
		var ev J
		if len(text) <= 3000 && strings.Count(text, "<") <= 100 { // (the JSON reader of TLC nests at most 255 deep)
			ev = parseEvent(text)
		} else {
			// long inputs: outcome, counts and positions only (the specification does not re-parse them)
			full := parseEvent(text)
			ev = J{"text": []int{}, "bytelen": len(text), "outcome": full["outcome"], "msgs": []interface{}{}, "nmsgs": len(full["msgs"].([]interface{})),
				"errs": full["errs"], "warns": full["warns"], "floats": []interface{}{}, "lines": 1 + strings.Count(text, "\n"), "long": true}
			if len(ev["errs"].([]interface{})) > 50 {
				ev["errs"] = ev["errs"].([]interface{})[:50]
			}
			if len(ev["warns"].([]interface{})) > 50 {
				ev["warns"] = ev["warns"].([]interface{})[:50]
			}
		}
		if _, ok := ev["long"]; !ok {
			ev["long"] = false
			ev["nmsgs"] = len(ev["msgs"].([]interface{}))
			ev["lines"] = 1 + strings.Count(text, "\n")
		}
		ev["ev"], ev["variant"], ev["head"], ev["len"] = "hostile", 1, textChars(head), len(text)
		c.emit(i, ev)
		c.out.Flush()
		c.count("hostile.cases")
	}
}

// pp-replay (TLC -> Go): every message MCPrintParse enumerated is built with the real factories, printed and parsed
// back; the event carries TLC's message and the text the printer model wrote for it.
func driverPPReplay(c *Ctx) {
	f, err := os.Open(c.In)
	if err != nil {
		fmt.Fprintln(os.Stderr, "harness:", err)
		os.Exit(3)
	}
	defer f.Close()
	sc := bufio.NewScanner(f)
	sc.Buffer(make([]byte, 1<<20), 1<<24)
	i := -1
	for sc.Scan() {
		i++
		if !c.want(i) || (c.N > 1 && i%c.N != 0 && c.Only < 0) {
			continue
		}
		var raw map[string]interface{}
		if err := json.Unmarshal(sc.Bytes(), &raw); err != nil {
			fmt.Fprintln(os.Stderr, "harness: bad case:", err)
			os.Exit(3)
		}
		m := raw["msg"].(map[string]interface{})
		var item ast.ItemNode = ast.NewEmptyItemNode()
		if it := m["item"].(map[string]interface{}); it["f"] != "none" {
			item = absToG(it).Build()
		}
		w := map[string]int{"false": 0, "true": 1, "optional": 2}[m["w"].(string)]
		msg := ast.NewDataMessage(strOf(m["name"]), int(m["s"].(float64)), int(m["f"].(float64)), w, m["dir"].(string), item)
		ev := ppEvent(msg, "replay")
		ev["want"] = raw
		c.emit(i, ev)
		c.count("pp.replayed")
	}
}

// lit-replay (TLC -> Go): every spelling MCLiteral enumerated (with what the item must hold for it, stated from the
// bits of the value) goes through the real sml.Parse; the event carries TLC's verdict and item.
func driverLitReplay(c *Ctx) {
	f, err := os.Open(c.In)
	if err != nil {
		fmt.Fprintln(os.Stderr, "harness:", err)
		os.Exit(3)
	}
	defer f.Close()
	sc := bufio.NewScanner(f)
	sc.Buffer(make([]byte, 1<<20), 1<<24)
	i := -1
	for sc.Scan() {
		i++
		if !c.want(i) || (c.N > 1 && i%c.N != 0 && c.Only < 0) {
			continue
		}
		var raw map[string]interface{}
		if err := json.Unmarshal(sc.Bytes(), &raw); err != nil {
			fmt.Fprintln(os.Stderr, "harness: bad case:", err)
			os.Exit(3)
		}
		ev := parseEvent(strOf(raw["text"]))
		ev["ev"], ev["how"] = "parse", "lit-replay"
		ev["want"] = raw
		c.emit(i, ev)
		c.count("lit.replayed." + raw["ty"].(string))
	}
}
