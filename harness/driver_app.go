package main

// Growth (the library in use): behaviours of spec/HsmsApp.tla - a host and an equipment exchanging SECS-II
// transactions over one HSMS-SS connection - are replayed with the library used the way an application uses it:
// the message dictionary is ONE SML text, parsed once per behaviour; a message is made by looking its template up by
// name, filling its variables (through an ellipsis where the arity varies, list-level variables with items built
// by the factories), stamping session id and system bytes, deciding an optional wait bit, and encoding. What
// arrives is decoded from the bytes that travelled; the arguments of a reply are read from the *decoded* request's
// printed form, MHEAD of an S9Fx from the received frame. TLC judges every frame against the bytes the model computed.

import (
	"bufio"
	"encoding/json"
	"fmt"
	"os"
	"regexp"
	"strconv"
	"strings"

	"github.com/wolimst/lib-secs2-hsms-go/pkg/ast"
	"github.com/wolimst/lib-secs2-hsms-go/pkg/parser/hsms"
	"github.com/wolimst/lib-secs2-hsms-go/pkg/parser/sml"
)

func init() { drivers["app"] = driverApp }

const appDictionary = `// GEM-like message dictionary
S1F1 W H->E AreYouThere .                       // R U there
S1F1 W H<-E AreYouThereE .
S1F2 H<-E OnLineDataE <L <A mdln> <A softrev>>.
S1F2 H->E OnLineDataH <L>.
S1F3 [W] H->E StatusReq <L <U4 svid> ...>.      // selected status request
S1F3 [W] H->E StatusReq0 <L>.
S1F3 W H->E BadStatusReq <A "x">.
S1F4 H<-E StatusData <L sv ...>.
S1F4 H<-E StatusData0 <L>.
S2F41 W H->E HostCmd <L <A rcmd> <L <L <A cpname> <U2 cpval>> ...>>.
S2F41 W H->E HostCmd0 <L <A rcmd> <L>>.
S2F42 H<-E HostCmdAck <L <B hcack> <L <L <A cpname> <B cpack>> ...>>.
S2F42 H<-E HostCmdAck0 <L <B hcack> <L>>.
S5F1 W H<-E Alarm <L <B alcd> <U4 alid> <A altx>>.
S5F2 H->E AlarmAck <B 0>.
S6F11 [W] H<-E Event <L <U4 dataid> <U4 ceid> <L <L <U4 rptid> <L v ...>>>>.
S6F11 [W] H<-E Event0 <L <U4 dataid> <U4 ceid> <L <L <U4 rptid> <L>>>>.
S6F12 H->E EventAck <B 0>.
S9F1 H<-E Err1 <B[10] b0 b1 b2 b3 b4 b5 b6 b7 b8 b9>.   // unrecognized device id
S9F3 H<-E Err3 <B[10] b0 b1 b2 b3 b4 b5 b6 b7 b8 b9>.   // unrecognized stream
S9F5 H<-E Err5 <B[10] b0 b1 b2 b3 b4 b5 b6 b7 b8 b9>.   // unrecognized function
S9F7 H<-E Err7 <B[10] b0 b1 b2 b3 b4 b5 b6 b7 b8 b9>.   // illegal data
S9F9 H<-E Err9 <B[10] b0 b1 b2 b3 b4 b5 b6 b7 b8 b9>.   // transaction timer timeout
`

type appMsg struct {
	Kind string          `json:"kind"`
	Hdr  []int           `json:"hdr"`
	Sid  int             `json:"sid"`
	S    int             `json:"s"`
	F    int             `json:"f"`
	W    int             `json:"w"`
	Sys  []int           `json:"sys"`
	Name string          `json:"name"`
	Args []int           `json:"args"`
	Item json.RawMessage `json:"item"`
}

type appStep struct {
	Act    string `json:"act"`
	E      string `json:"e"`
	Msg    appMsg `json:"msg"`
	Bytes  []int  `json:"bytes"`
	Reply  appMsg `json:"reply"`
	RBytes []int  `json:"rbytes"`
	Sent   bool   `json:"sent"`
}

// want: the plain Secs2 record of a data message of the model (the recipe fields removed)
func (x appMsg) want() J {
	var item interface{}
	json.Unmarshal(x.Item, &item)
	return J{"kind": "data", "sid": x.Sid, "w": x.W, "s": x.S, "f": x.F, "sys": x.Sys, "item": item}
}

type appLib struct{ dict map[string]*ast.DataMessage }

func newAppLib() *appLib {
	msgs, errs, _ := sml.Parse(appDictionary)
	if len(errs) > 0 {
		panic("app: the dictionary does not parse: " + strings.Join(errs, "; "))
	}
	l := &appLib{dict: map[string]*ast.DataMessage{}}
	for _, m := range msgs {
		l.dict[m.Name()] = m
	}
	return l
}

var reIndex = regexp.MustCompile(`(\[\d+\])+$`)

// fillAll fills every variable the message lists with the next value of its base name
func fillAll(m *ast.DataMessage, vals map[string][]interface{}) *ast.DataMessage {
	used := map[string]int{}
	fill := map[string]interface{}{}
	for _, name := range m.Variables() {
		base := reIndex.ReplaceAllString(name, "")
		vs, ok := vals[base]
		if !ok {
			continue
		}
		fill[name] = vs[used[base]%len(vs)]
		used[base]++
	}
	return m.FillVariables(fill)
}

func svItem(id int) ast.ItemNode {
	switch id {
	case 1:
		return ast.NewUintNode(1, 3)
	case 2:
		return ast.NewASCIINode("1.0")
	case 300:
		return ast.NewIntNode(2, -2)
	}
	return ast.NewListNode()
}

// repeat fills the single ellipsis of m so that the group before it appears k times (k >= 1)
func repeat(m *ast.DataMessage, k int) *ast.DataMessage {
	for _, name := range m.Variables() {
		if strings.HasPrefix(name, "...") {
			return m.FillVariables(map[string]interface{}{name: k - 1})
		}
	}
	panic("app: template without an ellipsis")
}

func ints(a []int) []interface{} {
	r := make([]interface{}, len(a))
	for i, v := range a {
		r[i] = v
	}
	return r
}

// data builds a data message of the dictionary from its recipe
func (l *appLib) data(x appMsg, sender string) *ast.DataMessage {
	sys := unJ(x.Sys)
	tmpl := func(name string) *ast.DataMessage {
		m, ok := l.dict[name]
		if !ok {
			panic("app: no template " + name)
		}
		return m
	}
	var m *ast.DataMessage
	switch x.Name {
	case "Probe", "Abort":
		return ast.NewHSMSDataMessage(x.Name, x.S, x.F, x.W, "H<->E", ast.NewEmptyItemNode(), x.Sid, sys)
	case "AreYouThere":
		if sender == "E" {
			m = tmpl("AreYouThereE")
		} else {
			m = tmpl("AreYouThere")
		}
	case "OnLineDataE":
		m = fillAll(tmpl(x.Name), map[string][]interface{}{"mdln": {"MDLN"}, "softrev": {"1.0"}})
	case "OnLineDataH", "BadStatusReq", "AlarmAck", "EventAck":
		m = tmpl(x.Name)
	case "StatusReq":
		if len(x.Args) == 0 {
			m = tmpl("StatusReq0")
		} else {
			m = fillAll(repeat(tmpl("StatusReq"), len(x.Args)), map[string][]interface{}{"svid": ints(x.Args)})
		}
	case "StatusData":
		if len(x.Args) == 0 {
			m = tmpl("StatusData0")
		} else {
			var vs []interface{}
			for _, id := range x.Args {
				vs = append(vs, svItem(id))
			}
			m = fillAll(repeat(tmpl("StatusData"), len(x.Args)), map[string][]interface{}{"sv": vs})
		}
	case "HostCmd":
		if len(x.Args) == 0 {
			m = fillAll(tmpl("HostCmd0"), map[string][]interface{}{"rcmd": {"GO"}})
		} else {
			m = fillAll(repeat(tmpl("HostCmd"), len(x.Args)), map[string][]interface{}{"rcmd": {"GO"}, "cpname": {"P"}, "cpval": ints(x.Args)})
		}
	case "HostCmdAck":
		bad := 0
		for _, v := range x.Args {
			if v == 65535 {
				bad++
			}
		}
		if bad == 0 {
			m = fillAll(tmpl("HostCmdAck0"), map[string][]interface{}{"hcack": {0}})
		} else {
			m = fillAll(repeat(tmpl("HostCmdAck"), bad), map[string][]interface{}{"hcack": {3}, "cpname": {"P"}, "cpack": {2}})
		}
	case "Alarm":
		m = fillAll(tmpl("Alarm"), map[string][]interface{}{"alcd": {x.Args[0]}, "alid": {x.Args[1]}, "altx": {"HOT"}})
	case "Event":
		if len(x.Args) == 2 {
			m = fillAll(tmpl("Event0"), map[string][]interface{}{"dataid": {x.Args[0]}, "ceid": {x.Args[1]}, "rptid": {1}})
		} else {
			var vs []interface{}
			for _, id := range x.Args[2:] {
				vs = append(vs, svItem(id))
			}
			m = fillAll(repeat(tmpl("Event"), len(vs)), map[string][]interface{}{"dataid": {x.Args[0]}, "ceid": {x.Args[1]}, "rptid": {1}, "v": vs})
		}
	case "S9":
		vals := map[string][]interface{}{}
		for i, b := range x.Args {
			vals["b"+strconv.Itoa(i)] = []interface{}{b}
		}
		m = fillAll(tmpl("Err"+strconv.Itoa(x.F)), vals)
	default:
		panic("app: no recipe for " + x.Name)
	}
	m = m.SetSessionIDAndSystemBytes(x.Sid, sys)
	scribbleBytes(sys)
	if m.WaitBit() == "optional" {
		m = m.SetWaitBit(x.W == 1)
	}
	return m
}

var reU4 = regexp.MustCompile(`<U4\[1\] (\d+)>`)
var reU2 = regexp.MustCompile(`<U2\[1\] (\d+)>`)

func numbers(re *regexp.Regexp, text string) []int {
	var r []int
	for _, mt := range re.FindAllStringSubmatch(text, -1) {
		v, _ := strconv.Atoi(mt[1])
		r = append(r, v)
	}
	return r
}

// ctrl builds a control message of the model: requests from their fields, responses from the decoded request
func appCtrl(hdr []int, from ast.HSMSMessage, raw []byte) ast.HSMSMessage {
	h := unJ(hdr)
	sid := uint16(h[0])<<8 | uint16(h[1])
	sys := clone(h[6:10])
	defer scribbleBytes(sys)
	switch h[5] {
	case 1:
		return ast.NewHSMSMessageSelectReq(sid, sys)
	case 2:
		return ast.NewHSMSMessageSelectRsp(from, h[3])
	case 3:
		return ast.NewHSMSMessageDeselectReq(sid, sys)
	case 4:
		return ast.NewHSMSMessageDeselectRsp(from, h[3])
	case 5:
		return ast.NewHSMSMessageLinktestReq(sys)
	case 6:
		return ast.NewHSMSMessageLinktestRsp(from)
	case 7:
		// a reject is made from the raw header of what arrived
		return ast.NewHSMSMessageRejectReq(uint16(raw[4])<<8|uint16(raw[5]), raw[8], raw[9], raw[10:14], h[3])
	case 9:
		return ast.NewHSMSMessageSeparateReq(sid, sys)
	}
	panic(fmt.Sprintf("app: no constructor for stype %d", h[5]))
}

func driverApp(c *Ctx) {
	f, err := os.Open(c.In)
	if err != nil {
		fmt.Fprintln(os.Stderr, "harness:", err)
		os.Exit(3)
	}
	defer f.Close()
	sc := bufio.NewScanner(f)
	sc.Buffer(make([]byte, 1<<20), 1<<26)
	i := -1
	for sc.Scan() {
		i++
		if !c.want(i) {
			continue
		}
		var steps []appStep
		if err := json.Unmarshal(sc.Bytes(), &steps); err != nil {
			fmt.Fprintln(os.Stderr, "harness: bad behaviour:", err)
			os.Exit(3)
		}
		lib := newAppLib()
		pipe := map[string][][]byte{"H": nil, "E": nil}
		peer := map[string]string{"H": "E", "E": "H"}
		sentHdr := map[string][]byte{}                  // header of every primary an entity sent, by its system bytes (for S9F9)
		stream := map[string][]byte{"H": nil, "E": nil} // everything that was put on the wire towards H / E, frame after frame
		frames := map[string][][]byte{"H": nil, "E": nil}
		put := func(to string, b []byte) {
			stream[to] = append(stream[to], b...)
			frames[to] = append(frames[to], b)
		}
		// dataEvent: the frame of a data message made by the library, judged like any round-trip event plus the model's bytes
		dataEvent := func(k int, how string, x appMsg, expect []int, mk func() *ast.DataMessage) []byte {
			var m *ast.DataMessage
			var b []byte
			if p, msg := try(func() { m = mk(); b = m.ToBytes() }); p || m == nil {
				c.emit(i, J{"ev": "appfail", "step": k, "how": how, "name": x.Name, "panic": msg})
				return nil
			}
			ev := decodeEvent(b)
			ev["ev"], ev["how"], ev["step"] = "rt", how, k
			ev["msg"] = projMsg(m)
			ev["want"], ev["expect"] = x.want(), expect
			c.emit(i, ev)
			return b
		}
		ctrlEvent := func(k int, how string, expect []int, mk func() ast.HSMSMessage) []byte {
			var b []byte
			ty := ""
			p, _ := try(func() { m := mk(); b = m.ToBytes(); ty = typeOfMsg(m) })
			c.emit(i, J{"ev": "appctl", "step": k, "how": how, "built": !p, "bytes": bytesJ(b), "expect": expect, "type": ty})
			return b
		}
		for k, st := range steps {
			switch st.Act {
			case "Disconnect", "T6", "T7":
				pipe["H"], pipe["E"] = nil, nil
			case "Send":
				var b []byte
				if st.Msg.Kind == "ctrl" {
					b = ctrlEvent(k, "send", st.Bytes, func() ast.HSMSMessage { return appCtrl(st.Msg.Hdr, nil, nil) })
				} else {
					b = dataEvent(k, "app-send", st.Msg, st.Bytes, func() *ast.DataMessage { return lib.data(st.Msg, st.E) })
					if len(b) >= 14 {
						sentHdr[st.E+string(b[10:14])] = clone(b[4:14])
					}
				}
				pipe[peer[st.E]] = append(pipe[peer[st.E]], b)
				put(peer[st.E], b)
			case "T3":
				// the reply timer of one of the equipment's primaries ran out: S9F9 with that primary's header
				if st.Reply.Kind == "data" {
					r := st.Reply
					hdr := sentHdr[st.E+string(unJ(r.Args[6:10]))]
					b := dataEvent(k, "app-t3", r, st.RBytes, func() *ast.DataMessage {
						r.Args = bytesJ(hdr)
						return lib.data(r, st.E)
					})
					pipe[peer[st.E]] = append(pipe[peer[st.E]], b)
					put(peer[st.E], b)
				}
			case "Recv":
				ev := J{"ev": "apprecv", "step": k, "desync": false, "bytes": []int{}, "expect": st.Bytes, "ok": false,
					"msg2": J{"kind": "nil"}, "type": "", "reparsed": false}
				if len(pipe[st.E]) == 0 {
					ev["desync"] = true
					c.emit(i, ev)
					continue
				}
				b := pipe[st.E][0]
				pipe[st.E] = pipe[st.E][1:]
				ev["bytes"] = bytesJ(b)
				in := poisoned(b)
				m, ok := hsms.Parse(in)
				scribbleBytes(in)
				ev["ok"] = ok
				text := ""
				if ok && m != nil {
					ev["msg2"] = projHSMS(m)
					ev["type"] = typeOfMsg(m)
					if d, isData := m.(*ast.DataMessage); isData {
						// what an application does with a received message: print it (and read the print back)
						text = d.String()
						back, errs, _ := sml.Parse(text)
						ev["reparsed"] = len(errs) == 0 && len(back) == 1 &&
							string(back[0].SetSessionIDAndSystemBytes(d.SessionID(), d.SystemBytes()).ToBytes()) == string(b)
					}
				}
				c.emit(i, ev)
				if st.Reply.Kind == "none" || st.Reply.Kind == "" {
					continue
				}
				var rb []byte
				if st.Reply.Kind == "ctrl" {
					rb = ctrlEvent(k, "reply", st.RBytes, func() ast.HSMSMessage { return appCtrl(st.Reply.Hdr, m, b) })
				} else {
					r := st.Reply
					// the arguments of the reply come from what was decoded, not from the model
					switch r.Name {
					case "StatusData":
						r.Args = numbers(reU4, text)
					case "HostCmdAck":
						r.Args = numbers(reU2, text)
					case "S9":
						r.Args = bytesJ(b[4:14])
					}
					if d, isData := m.(*ast.DataMessage); isData && r.Name != "S9" {
						r.Sid, r.Sys = d.SessionID(), bytesJ(d.SystemBytes())
					}
					rb = dataEvent(k, "app-reply", r, st.RBytes, func() *ast.DataMessage { return lib.data(r, st.E) })
				}
				if st.Sent {
					pipe[peer[st.E]] = append(pipe[peer[st.E]], rb)
					put(peer[st.E], rb)
				}
			}
		}
		// the byte stream of each direction, as TCP delivers it: cut into frames again by nothing but the four length
		// bytes in front of every message, each frame decoded
		for _, to := range []string{"H", "E"} {
			ev := J{"ev": "appstream", "to": to, "frames": len(frames[to]), "streamlen": len(stream[to]), "cut": 0, "same": true, "allok": true, "rest": 0}
			in := poisoned(stream[to])
			pos, k := 0, 0
			for pos+4 <= len(in) {
				n := int(in[pos])<<24 | int(in[pos+1])<<16 | int(in[pos+2])<<8 | int(in[pos+3])
				if n < 10 || pos+4+n > len(in) {
					break
				}
				fr := in[pos : pos+4+n]
				if k >= len(frames[to]) || string(fr) != string(frames[to][k]) {
					ev["same"] = false
				}
				if _, ok := hsms.Parse(fr); !ok {
					ev["allok"] = false
				}
				pos += 4 + n
				k++
			}
			ev["cut"], ev["rest"] = k, len(in)-pos
			c.emit(i, ev)
		}
		c.count("app.behaviours")
	}
}
