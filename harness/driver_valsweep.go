package main

// C02, exhaustively: every value of the 1- and 2-byte formats (and the values just outside them), and every F4 bit
// pattern, built through the factories and encoded. The results travel as interval summaries: maximal runs of
// values on which (accepted?, header, payload-as-unsigned-number minus value) is constant. TLC checks each
// interval against its own two's-complement / IEEE definitions for every value in it.

import (
	"math"
	"runtime"
	"sync"

	"github.com/wolimst/lib-secs2-hsms-go/pkg/ast"
)

func init() { drivers["val-sweep"] = driverValSweep }

type valClass struct {
	acc bool
	hdr string
	d   int64 // big-endian payload value minus the argument
}

func classOf(f string, v int64) valClass {
	var it ast.ItemNode
	refused, _ := try(func() {
		switch f {
		case "B":
			it = ast.NewBinaryNode(int(v))
		case "A":
			it = ast.NewASCIINode(string(rune(v)))
		default:
			it = (&GItem{F: f, Vals: []interface{}{v}}).Build()
		}
	})
	if refused {
		return valClass{}
	}
	b := it.ToBytes()
	if len(b) < 2 {
		return valClass{acc: true, hdr: string(b), d: -1 << 40}
	}
	nl := int(b[0] & 3)
	var u int64
	for _, x := range b[1+nl:] {
		u = u<<8 | int64(x)
	}
	return valClass{acc: true, hdr: string(b[:1+nl]), d: u - v}
}

func driverValSweep(c *Ctx) {
	ci := 0
	for _, spec := range []struct {
		f      string
		lo, hi int64
	}{{"B", -300, 600}, {"A", 0, 300}, {"I1", -400, 400}, {"U1", -300, 600}, {"I2", -70000, 70000}, {"U2", -70000, 140000}} {
		if c.want(ci) {
			start := spec.lo
			cur := classOf(spec.f, spec.lo)
			flush := func(end int64) {
				c.emit(ci, J{"ev": "valivl", "f": spec.f, "a": int(start), "b": int(end), "accepted": cur.acc, "hdr": bytesJ([]byte(cur.hdr)), "d": int(cur.d),
					"first": start == spec.lo, "last": end == spec.hi})
			}
			for v := spec.lo + 1; v <= spec.hi; v++ {
				cl := classOf(spec.f, v)
				if cl != cur {
					flush(v - 1)
					start, cur = v, cl
				}
			}
			flush(spec.hi)
			c.count("valsweep." + spec.f)
		}
		ci++
	}
	// F4: all 2^32 patterns in the thorough tier; in the quick tier every high half with low halves 0, 1, 0xFFFF
	if c.want(ci) {
		type ivl struct {
			a, b uint32
			acc  bool
			same bool
		}
		dense := c.Tier == "thorough"
		nblk := 1 << 12 // blocks of 2^20 patterns
		res := make([][]ivl, nblk)
		var wg sync.WaitGroup
		sem := make(chan bool, runtime.NumCPU())
		probe := func(p uint32) (bool, bool) {
			v := float64(math.Float32frombits(p))
			var it ast.ItemNode
			refused, _ := try(func() { it = ast.NewFloatNode(4, v) })
			if refused {
				return false, true
			}
			b := it.ToBytes()
			ok := len(b) == 6 && b[0] == 0x91 && b[1] == 4 && uint32(b[2])<<24|uint32(b[3])<<16|uint32(b[4])<<8|uint32(b[5]) == p
			return true, ok
		}
		for blk := 0; blk < nblk; blk++ {
			wg.Add(1)
			go func(blk int) {
				defer wg.Done()
				sem <- true
				defer func() { <-sem }()
				var out []ivl
				base := uint32(blk) << 20
				step := func(p uint32) {
					acc, same := probe(p)
					if n := len(out); n > 0 && out[n-1].acc == acc && out[n-1].same == same {
						out[n-1].b = p
					} else {
						out = append(out, ivl{p, p, acc, same})
					}
				}
				if dense {
					// 4096 patterns per factory call; a block the factory refuses as a whole is probed value by value
					const B = 4096
					vals := make([]interface{}, B)
					for off := uint32(0); off < 1<<20; off += B {
						for k := uint32(0); k < B; k++ {
							vals[k] = float64(math.Float32frombits(base + off + k))
						}
						var it ast.ItemNode
						refused, _ := try(func() { it = ast.NewFloatNode(4, vals...) })
						good := false
						if !refused {
							b := it.ToBytes()
							if len(b) == 3+4*B && b[0] == 0x92 && b[1] == byte(4*B>>8) && b[2] == byte(4*B&255) {
								good = true
								for k := uint32(0); k < B && good; k++ {
									p := base + off + k
									q := b[3+4*k:]
									good = uint32(q[0])<<24|uint32(q[1])<<16|uint32(q[2])<<8|uint32(q[3]) == p
								}
							}
						}
						if good {
							if n := len(out); n > 0 && out[n-1].acc && out[n-1].same {
								out[n-1].b = base + off + B - 1
							} else {
								out = append(out, ivl{base + off, base + off + B - 1, true, true})
							}
							continue
						}
						for k := uint32(0); k < B; k++ {
							step(base + off + k)
						}
					}
				} else {
					for hi := base >> 16; hi < (base>>16)+16; hi++ {
						for _, lo := range []uint32{0, 1, 0xFFFF} {
							step(hi<<16 | lo)
						}
					}
				}
				res[blk] = out
			}(blk)
		}
		wg.Wait()
		var all []ivl
		for _, out := range res {
			for _, x := range out {
				if n := len(all); n > 0 && all[n-1].acc == x.acc && all[n-1].same == x.same {
					all[n-1].b = x.b
				} else {
					all = append(all, x)
				}
			}
		}
		for k, x := range all {
			c.emit(ci, J{"ev": "f4ivl", "ahi": int(x.a >> 16), "alo": int(x.a & 0xFFFF), "bhi": int(x.b >> 16), "blo": int(x.b & 0xFFFF),
				"accepted": x.acc, "same": x.same, "dense": dense, "first": k == 0, "last": k == len(all)-1})
		}
		c.count("valsweep.F4")
	}
}
