package main

// TLC -> Go for C11 / C18: behaviours of spec/Message.tla (factory, SetWaitBit, SetSessionIDAndSystemBytes,
// FillVariables, and the environment scribbling over slices) are executed through the real API and recorded
// in the event format of the hist driver, so that TraceMessage judges them like any other history.

import (
	"bufio"
	"encoding/json"
	"fmt"
	"os"

	"github.com/wolimst/lib-secs2-hsms-go/pkg/ast"
)

func init() { drivers["msg-replay"] = driverMsgReplay }

type mrStep struct {
	Op struct {
		K    string `json:"k"`
		ID   int    `json:"id"`
		B    bool   `json:"b"`
		S    int    `json:"s"`
		F    int    `json:"f"`
		W    int    `json:"w"`
		Dir  string `json:"dir"`
		Name string `json:"name"`
		Item string `json:"item"`
		Sid  int    `json:"sid"`
		Sys  []int  `json:"sys"`
		Key  string `json:"key"`
		What string `json:"what"`
	} `json:"op"`
}

func driverMsgReplay(c *Ctx) {
	f, err := os.Open(c.In)
	if err != nil {
		fmt.Fprintln(os.Stderr, "harness:", err)
		os.Exit(3)
	}
	defer f.Close()
	sc := bufio.NewScanner(f)
	sc.Buffer(make([]byte, 1<<20), 1<<24)
	i := -1
	for sc.Scan() {
		i++
		if !c.want(i) {
			continue
		}
		var steps []mrStep
		if err := json.Unmarshal(sc.Bytes(), &steps); err != nil {
			fmt.Fprintln(os.Stderr, "harness: bad behaviour:", err)
			os.Exit(3)
		}
		var objs []hobj
		modelToPool := []int{} // model message index (1-based in the model) -> position in objs
		c.emit(i, J{"ev": "reset"})
		st := 0
		emit := func(op J, res J, newdig string) {
			dig := make([]string, len(objs))
			for k, o := range objs {
				dig[k] = o.digest()
			}
			c.emit(i, J{"ev": "step", "op": op, "res": res, "dig": dig, "newdig": newdig, "step": st})
			st++
		}
		addMsg := func(op J, mk func() *ast.DataMessage, from int) {
			var m *ast.DataMessage
			if p, _ := try(func() { m = mk() }); p {
				emit(op, J{"outcome": "refused"}, "")
				return
			}
			if from >= 0 && m == objs[from].msg {
				r := objs[from].abs()
				r["outcome"] = "same"
				emit(op, r, "")
				return
			}
			objs = append(objs, hobj{msg: m})
			modelToPool = append(modelToPool, len(objs)-1)
			r := objs[len(objs)-1].abs()
			r["outcome"] = "new"
			nd := objs[len(objs)-1].digest()
			emit(op, r, nd)
		}
		for _, s := range steps {
			o := s.Op
			if o.K != "New" && o.ID > len(modelToPool) {
				// the real code refused an operation the model performs (already recorded as a "refused"
				// step, which the specification rejects): the rest of this behaviour has no object to act on
				c.count("msgreplay.abandoned")
				break
			}
			pool := func(id int) int { return modelToPool[id-1] }
			switch o.K {
			case "New":
				var it ast.ItemNode
				switch o.Item {
				case "lit":
					it = ast.NewUintNode(1, 5)
				case "var":
					it = ast.NewUintNode(1, "x")
				default:
					it = ast.NewEmptyItemNode()
				}
				objs = append(objs, hobj{item: it})
				r := objs[len(objs)-1].abs()
				r["outcome"] = "new"
				emit(J{"k": "newitem"}, r, objs[len(objs)-1].digest())
				itemID := len(objs)
				addMsg(J{"k": "newmsg", "item": itemID, "name": textChars(o.Name), "s": o.S, "f": o.F, "w": o.W, "dir": o.Dir},
					func() *ast.DataMessage { return ast.NewDataMessage(o.Name, o.S, o.F, o.W, o.Dir, it) }, -1)
			case "SetWaitBit":
				id := pool(o.ID)
				addMsg(J{"k": "setwait", "id": id + 1, "b": o.B}, func() *ast.DataMessage { return objs[id].msg.SetWaitBit(o.B) }, id)
			case "SetSession":
				id := pool(o.ID)
				sys := unJ(o.Sys)
				addMsg(J{"k": "setsession", "id": id + 1, "sid": o.Sid, "sys": bytesJ(sys)},
					func() *ast.DataMessage { return objs[id].msg.SetSessionIDAndSystemBytes(o.Sid, sys) }, -1)
				scribbleBytes(sys)
			case "Fill":
				id := pool(o.ID)
				vals := map[string]interface{}{o.Key: 5}
				addMsg(J{"k": "fillmsg", "id": id + 1, "cnt": []interface{}{}, "sigma": []interface{}{J{"k": chars(o.Key), "v": intJ(5)}}},
					func() *ast.DataMessage { return objs[id].msg.FillVariables(vals) }, -1)
				vals[o.Key] = 99
			case "Scribble":
				id := pool(o.ID)
				switch o.What {
				case "SystemBytes":
					scribbleBytes(objs[id].msg.SystemBytes())
				case "ToBytes":
					scribbleBytes(objs[id].msg.ToBytes())
				default:
					scribbleNames(objs[id].msg.Variables())
				}
				emit(J{"k": "observemsg", "id": id + 1}, J{"outcome": "none"}, "")
			}
		}
		c.count("msgreplay.behaviours")
	}
}
