package main

// C07: the HSMS decoder is total and its memory use is linear in the input.
// The driver runs as an isolated worker: before each input it writes (and flushes) a "begin" line, after it
// the result. If the process is killed by a fatal error (stack overflow, out of memory), the parent sees a
// begin without a result, records outcome "abort" for that input and restarts the worker behind it.

import (
	"math/rand"
	"runtime"
	"time"

	"github.com/wolimst/lib-secs2-hsms-go/pkg/parser/hsms"
)

func init() { drivers["alloc"] = driverAlloc }

type allocCase struct {
	family string
	desc   string
	input  []byte
}

func hsmsFrame(text []byte) []byte { return mkMsg(0, 0, 0, 129, 1, text) }

func len3(n int) []byte { return []byte{byte(n >> 16), byte(n >> 8), byte(n)} }

// allocCases enumerates the input families. The list is a pure function of (seed, tier).
func allocCases(seed int64, tier string) []allocCase {
	r := rand.New(rand.NewSource(seed))
	var cs []allocCase
	add := func(family, desc string, text []byte) { cs = append(cs, allocCase{family, desc, hsmsFrame(text)}) }
	leafFmt := []byte{8, 9, 16, 24, 25, 26, 28, 32, 36, 40, 41, 42, 44}
	// 0. inputs shorter than a header, including nil and the empty slice
	for n := 0; n < 14; n++ {
		b := []byte{0, 0, 0, 10, 0, 7, 129, 1, 0, 0, 1, 2, 3, 4}[:n]
		cs = append(cs, allocCase{"tiny", "", b})
		if n >= 4 {
			c2 := append([]byte{}, b...)
			c2[3] = byte(n - 4)
			cs = append(cs, allocCase{"tiny", "", c2})
		}
	}
	cs = append(cs, allocCase{"tiny", "", nil})
	// 1. short inputs declaring huge lengths, at nesting depth 0..3, every format, 1..3 length bytes
	for depth := 0; depth <= 3; depth++ {
		for _, code := range append([]byte{0}, leafFmt...) {
			for _, ln := range [][]byte{{0xFF, 0xFF, 0xFF}, {0xFF, 0xFF, 0xF8}, {0xFF, 0xFF}, {0xFF}, {0x80, 0x00, 0x00}} {
				var t []byte
				for d := 0; d < depth; d++ {
					t = append(t, 0x01, 0x01)
				}
				t = append(t, code<<2|byte(len(ln)))
				t = append(t, ln...)
				for k := 0; k < r.Intn(9); k++ {
					t = append(t, byte(r.Intn(256)))
				}
				add("huge-declared", "", t)
			}
		}
	}
	// 2. nested lists, each declaring as many elements as bytes remain
	sizes := []int{64, 1024, 16384}
	if tier == "thorough" {
		sizes = append(sizes, 262144)
	}
	for _, sz := range sizes {
		var t []byte
		for len(t)+4 <= sz {
			t = append(t, 0x03)
			t = append(t, len3((sz-len(t)-3)/2)...)
		}
		add("greedy-nested-lists", "", t)
		var t2 []byte
		for len(t2)+4 <= sz {
			t2 = append(t2, 0x03)
			t2 = append(t2, len3(sz-len(t2)-3)...)
		}
		add("greedy-nested-lists", "", t2)
	}
	// 3. long honest payloads
	big := []int{1000, 65536, 1 << 20}
	if tier == "thorough" {
		big = append(big, 1<<24-1)
	}
	for _, n := range big {
		for _, code := range []byte{16, 8, 9, 41, 40, 32, 25} {
			w := map[byte]int{16: 1, 8: 1, 9: 1, 41: 1, 25: 1, 40: 8, 32: 8}[code]
			m := n / w * w
			t := append([]byte{code<<2 | 3}, len3(m)...)
			p := make([]byte, m)
			for i := range p {
				p[i] = byte(i % 100)
			}
			add("long-payload", "", append(t, p...))
			add("truncated", "", append(t, p[:m/2]...))
		}
		// a long flat list of small items
		k := n / 3
		t := append([]byte{0x03}, len3(k)...)
		for i := 0; i < k; i++ {
			t = append(t, 0xA5, 0x01, byte(i))
		}
		add("long-flat-list", "", t)
	}
	// 4. nesting depth: one-element lists
	depths := []int{10, 100, 1000, 3000}
	if tier == "thorough" {
		depths = append(depths, 10000)
	}
	for _, d := range depths {
		var t []byte
		for i := 0; i < d; i++ {
			t = append(t, 0x01, 0x01)
		}
		add("deep-nesting", "", append(t, 0xA5, 0x01, 0x07))
		add("deep-nesting-truncated", "", t)
	}
	// 4b. deep and wide at once: a list of w small items (scalars, empty lists, short strings) under d enclosing lists,
	// honestly declared - the message is valid
	dw := [][2]int{{300, 300}, {1000, 1000}, {2000, 500}, {500, 2000}}
	if tier == "thorough" {
		dw = append(dw, [2]int{4000, 4000}, [2]int{10000, 1000})
	}
	for _, x := range dw {
		for _, child := range [][]byte{{0xA5, 0x01, 0x07}, {0x01, 0x00}, {0x41, 0x01, 0x61}, {0x21, 0x00}, {0x01, 0x01, 0xA5, 0x01, 0x07}} {
			var t []byte
			for i := 0; i < x[0]; i++ {
				t = append(t, 0x01, 0x01)
			}
			t = append(t, 0x03)
			t = append(t, len3(x[1])...)
			for i := 0; i < x[1]; i++ {
				t = append(t, child...)
			}
			add("deep-and-wide", "", t)
		}
	}
	// 4c. combs: at every one of d levels a list of k small items and the next level (valid)
	for _, dk := range [][2]int{{500, 10}, {2000, 3}, {300, 100}} {
		for _, leaf := range [][]byte{{0xA5, 0x01, 0x07}, {0x41, 0x02, 0x61, 0x62}, {0x01, 0x00}} {
			var build func(d int) []byte
			build = func(d int) []byte {
				n := dk[1]
				if d > 0 {
					n++
				}
				t := []byte{0x01, byte(n)}
				for i := 0; i < dk[1]; i++ {
					t = append(t, leaf...)
				}
				if d > 0 {
					t = append(t, build(d-1)...)
				}
				return t
			}
			add("comb", "", build(dk[0]))
		}
	}
	// 5. random bytes and random mutations of a valid message
	for k := 0; k < 150; k++ {
		n := r.Intn(200)
		t := make([]byte, n)
		r.Read(t)
		if k%3 == 0 && n > 0 {
			t[0] = t[0]&^3 | byte(1+r.Intn(3))
		}
		add("random", "", t)
	}
	// 5b. header variants: stream/wait bit, function code, PType, SType around their boundaries, with and without text
	for _, b2 := range []byte{0, 1, 0x7F, 0x80, 0x81, 0xFF} {
		for _, b3 := range []byte{0, 1, 2, 3, 254, 255} {
			for _, pt := range []byte{0, 1} {
				for _, st := range []byte{0, 1, 9} {
					for _, text := range [][]byte{nil, {0xA5, 0x01, 0x07}} {
						cs = append(cs, allocCase{"header-variants", "", mkMsg(0, pt, st, b2, b3, text)})
					}
				}
			}
		}
	}
	// 5c. a ladder of very deep chains that stop early (truncated, or with an innermost list that declares more than is
	// there): 128 Ki .. 1 Mi levels (thorough: 2 Mi) - far below the depth of the known finding, and no item is ever built,
	// so the decoder has nothing to do but come back
	ladder := []int{1 << 17, 1 << 18, 1 << 19, 3 << 18, 1 << 20}
	if tier == "thorough" {
		ladder = append(ladder, 3<<19, 1<<21)
	}
	for _, d := range ladder {
		t := make([]byte, 0, 2*d+4)
		for i := 0; i < d; i++ {
			t = append(t, 0x01, 0x01)
		}
		add("deep-chain-ladder", "", t)
		add("deep-chain-ladder", "", append(clone(t), 0x03, 0xFF, 0xFF, 0xFF))
	}
	// 6. the extreme: 16 MiB of nested one-element lists (a known finding, kept last)
	{
		d := (1<<24 - 1 - 3) / 2
		t := make([]byte, 0, 2*d+3)
		for i := 0; i < d; i++ {
			t = append(t, 0x01, 0x01)
		}
		add("deep-nesting-16MiB", "", append(t, 0xA5, 0x01, 0x07))
	}
	return cs
}

func driverAlloc(c *Ctx) {
	cases := allocCases(c.Seed, c.Tier)
	for i := c.From; i < len(cases); i++ {
		if !c.want(i) {
			continue
		}
		cs := cases[i]
		n := len(cs.input)
		head := cs.input
		if len(head) > 40 {
			head = head[:40]
		}
		base := J{"family": cs.family, "len": n, "head": bytesJ(head)}
		begin := J{"ev": "begin", "variant": 0}
		for k, v := range base {
			begin[k] = v
		}
		c.emit(i, begin)
		c.out.Flush()
		in := exact(cs.input)
		runtime.GC()
		var ms runtime.MemStats
		runtime.ReadMemStats(&ms)
		before := ms.TotalAlloc
		t0 := time.Now()
		var ok bool
		panicked, _ := try(func() { _, ok = hsms.Parse(in) })
		dt := time.Since(t0)
		runtime.ReadMemStats(&ms)
		kb := (ms.TotalAlloc - before + 1023) / 1024
		if kb > 1<<30 {
			kb = 1 << 30
		}
		outcome := "returned"
		if panicked {
			outcome = "panic"
		}
		ev := J{"ev": "alloc", "variant": 1, "outcome": outcome, "ok": ok, "alloc_kb": int(kb), "ms": int(dt.Milliseconds())}
		for k, v := range base {
			ev[k] = v
		}
		c.emit(i, ev)
		c.out.Flush()
		c.count("alloc." + cs.family)
	}
}
