package main

// Conformance harness: seeded drivers that run the real library and record NDJSON events for the
// TLA+ trace specifications, and replayers that execute TLC-generated cases against the real library.
//
//   harness <driver> -seed S -n N -out FILE [-only CASE] [-tier quick|thorough] [-in FILE]
//
// Every driver is deterministic in (seed, case index): case i uses its own generator seeded from both,
// so `-only i` re-executes exactly that case (this is what `bin/check --replay` does).

import (
	"bufio"
	"encoding/json"
	"flag"
	"fmt"
	"os"
	"sort"
)

type Ctx struct {
	Seed     int64
	N        int
	Only     int
	Tier     string
	In       string
	Arg      string
	out      *bufio.Writer
	Events   int
	Driver   string
	Stats    map[string]int
	From     int
	Upto     int
	variants map[int]int
}

// want: `-only i` runs case i alone; `-upto i` runs cases 0..i in this process and records case i alone (for
// rejections that depend on the calls made earlier in the same process).
func (c *Ctx) want(i int) bool {
	if c.Upto >= 0 {
		return i <= c.Upto
	}
	return c.Only < 0 || c.Only == i
}

func (c *Ctx) gen(i int) *Gen { return NewGen(c.Seed*1000003 + int64(i)*7919 + 17) }

func (c *Ctx) emit(i int, ev J) {
	if c.Upto >= 0 && i != c.Upto {
		return
	}
	if _, ok := ev["variant"]; !ok {
		// several events of one case are told apart by their position within the case
		if c.variants == nil {
			c.variants = map[int]int{}
		}
		ev["variant"] = c.variants[i]
		c.variants[i]++
	}
	ev["driver"] = c.Driver
	ev["seed"] = c.Seed
	ev["case"] = i
	b, err := json.Marshal(ev)
	if err != nil {
		fmt.Fprintln(os.Stderr, "harness: cannot encode event:", err)
		os.Exit(3)
	}
	c.out.Write(b)
	c.out.WriteByte('\n')
	c.Events++
	if hangCount >= 3 {
		// several calls never came back: stop here, what was recorded is judged
		c.out.Flush()
		os.Exit(0)
	}
}

func (c *Ctx) count(k string) { c.Stats[k]++ }

var drivers = map[string]func(*Ctx){}

func main() {
	if len(os.Args) < 2 {
		names := []string{}
		for k := range drivers {
			names = append(names, k)
		}
		sort.Strings(names)
		fmt.Fprintln(os.Stderr, "usage: harness <driver> [flags]; drivers:", names)
		os.Exit(2)
	}
	name := os.Args[1]
	d, ok := drivers[name]
	if !ok {
		fmt.Fprintln(os.Stderr, "harness: unknown driver", name)
		os.Exit(2)
	}
	fs := flag.NewFlagSet(name, flag.ExitOnError)
	c := &Ctx{Driver: name, Stats: map[string]int{}}
	fs.Int64Var(&c.Seed, "seed", 1, "seed")
	fs.IntVar(&c.N, "n", 100, "number of cases")
	fs.IntVar(&c.Only, "only", -1, "run only this case index")
	fs.StringVar(&c.Tier, "tier", "quick", "tier")
	fs.StringVar(&c.In, "in", "", "input file (replayers)")
	fs.StringVar(&c.Arg, "arg", "", "driver-specific argument")
	fs.IntVar(&c.Upto, "upto", -1, "run cases 0..upto, record only the last one")
	fs.IntVar(&c.From, "from", 0, "first case index (isolated-worker drivers)")
	appendOut := fs.Bool("append", false, "append to the output file")
	outPath := fs.String("out", "", "output NDJSON file")
	statsPath := fs.String("stats", "", "write driver statistics (JSON) here")
	fs.Parse(os.Args[2:])
	var f *os.File = os.Stdout
	if *outPath != "" {
		var err error
		if *appendOut {
			f, err = os.OpenFile(*outPath, os.O_APPEND|os.O_CREATE|os.O_WRONLY, 0o644)
		} else {
			f, err = os.Create(*outPath)
		}
		if err != nil {
			fmt.Fprintln(os.Stderr, "harness:", err)
			os.Exit(3)
		}
	}
	c.out = bufio.NewWriterSize(f, 1<<20)
	d(c)
	c.out.Flush()
	f.Close()
	c.Stats["events"] = c.Events
	if *statsPath != "" {
		b, _ := json.Marshal(c.Stats)
		os.WriteFile(*statsPath, b, 0o644)
	}
}
