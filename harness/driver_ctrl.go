package main

// C14: HSMS control messages are built, classified and decoded per HSMS.

import (
	"bufio"
	"encoding/json"
	"fmt"
	"hash/adler32"
	"hash/crc32"
	"hash/fnv"
	"os"
	"sync"

	"github.com/wolimst/lib-secs2-hsms-go/pkg/ast"
	"github.com/wolimst/lib-secs2-hsms-go/pkg/parser/hsms"
)

func init() {
	drivers["ctrl-replay"] = driverCtrlReplay
	drivers["ctrl"] = driverCtrl
}

type ctrlCase struct {
	Sid   int   `json:"sid"`
	Sys   []int `json:"sys"`
	Code  int   `json:"code"`
	PType int   `json:"ptype"`
	SType int   `json:"stype"`
}

// typeOf calls Type() and reports a panic as the type "PANIC"
func typeOf(m ast.HSMSMessage) (t string) {
	if p, _ := try(func() { t = m.Type() }); p {
		return "PANIC"
	}
	return t
}

func wire(m ast.HSMSMessage) J {
	if m == nil {
		return J{"bytes": []int{}, "type": "nil"}
	}
	return J{"bytes": bytesJ(m.ToBytes()), "type": typeOf(m)}
}

func safeCtor(f func() ast.HSMSMessage) J {
	var m ast.HSMSMessage
	if p, _ := try(func() { m = f() }); p {
		return J{"bytes": []int{}, "type": "refused"}
	}
	return wire(m)
}

// ctrl-replay: every constructor call of the specification's case table executed for real.
func driverCtrlReplay(c *Ctx) {
	f, err := os.Open(c.In)
	if err != nil {
		fmt.Fprintln(os.Stderr, "harness:", err)
		os.Exit(3)
	}
	defer f.Close()
	sc := bufio.NewScanner(f)
	sc.Buffer(make([]byte, 1<<20), 1<<24)
	i := -1
	for sc.Scan() {
		i++
		if !c.want(i) {
			continue
		}
		var cs ctrlCase
		var raw map[string]interface{}
		if err := json.Unmarshal(sc.Bytes(), &cs); err != nil {
			fmt.Fprintln(os.Stderr, "harness: bad case:", err)
			os.Exit(3)
		}
		json.Unmarshal(sc.Bytes(), &raw)
		sys := unJ(cs.Sys)
		sid := uint16(cs.Sid)
		code := byte(cs.Code)
		real := J{
			"selectreq":   safeCtor(func() ast.HSMSMessage { return ast.NewHSMSMessageSelectReq(sid, sys) }),
			"deselectreq": safeCtor(func() ast.HSMSMessage { return ast.NewHSMSMessageDeselectReq(sid, sys) }),
			"linktestreq": safeCtor(func() ast.HSMSMessage { return ast.NewHSMSMessageLinktestReq(sys) }),
			"separatereq": safeCtor(func() ast.HSMSMessage { return ast.NewHSMSMessageSeparateReq(sid, sys) }),
			"selectrsp": safeCtor(func() ast.HSMSMessage {
				return ast.NewHSMSMessageSelectRsp(ast.NewHSMSMessageSelectReq(sid, sys), code)
			}),
			"deselectrsp": safeCtor(func() ast.HSMSMessage {
				return ast.NewHSMSMessageDeselectRsp(ast.NewHSMSMessageDeselectReq(sid, sys), code)
			}),
			"linktestrsp": safeCtor(func() ast.HSMSMessage {
				return ast.NewHSMSMessageLinktestRsp(ast.NewHSMSMessageLinktestReq(sys))
			}),
			"rejectreq": safeCtor(func() ast.HSMSMessage {
				return ast.NewHSMSMessageRejectReq(sid, byte(cs.PType), byte(cs.SType), sys, code)
			}),
		}
		// the caller's slice must not be retained
		for k := range sys {
			sys[k] ^= 0xFF
		}
		c.emit(i, J{"ev": "ctrlcase", "want": raw, "real": real})
		c.count("ctrl.cases")
	}
}

// collidingHeaders finds two different control-message headers of one kind whose images under h are equal (birthday
// search over the system bytes): what a cache keyed by a checksum alone would confuse.
func collidingHeaders(stype byte, sid uint16, h func([]byte) uint32, framed bool) (a, b []byte, ok bool) {
	seen := map[uint32][]byte{}
	for n := uint32(1); n < 3000000; n++ {
		x := n * 2654435761        // spread over all four system bytes ...
		y := n*40503 + uint32(sid) // ... and the session id (a CRC is a bijection on any four bytes alone)
		hdr := []byte{byte(y >> 8), byte(y), 0, 0, 0, stype, byte(x >> 24), byte(x >> 16), byte(x >> 8), byte(x)}
		in := hdr
		if framed {
			in = append([]byte{0, 0, 0, 10}, hdr...)
		}
		k := h(in)
		if p, dup := seen[k]; dup && string(p) != string(hdr) {
			return p, hdr, true
		}
		seen[k] = hdr
	}
	return nil, nil, false
}

func mkCtrl(kind string, sid uint16, sys []byte, code byte) ast.HSMSMessage {
	switch kind {
	case "select.req":
		return ast.NewHSMSMessageSelectReq(sid, sys)
	case "select.rsp":
		return ast.NewHSMSMessageSelectRsp(ast.NewHSMSMessageSelectReq(sid, sys), code)
	case "deselect.req":
		return ast.NewHSMSMessageDeselectReq(sid, sys)
	case "deselect.rsp":
		return ast.NewHSMSMessageDeselectRsp(ast.NewHSMSMessageDeselectReq(sid, sys), code)
	case "linktest.req":
		return ast.NewHSMSMessageLinktestReq(sys)
	case "linktest.rsp":
		return ast.NewHSMSMessageLinktestRsp(ast.NewHSMSMessageLinktestReq(sys))
	case "reject.req":
		return ast.NewHSMSMessageRejectReq(sid, 0, 9, sys, code)
	case "separate.req":
		return ast.NewHSMSMessageSeparateReq(sid, sys)
	case "undefined":
		return ast.NewHSMSControlMessage([]byte{0, 0, 0, 0, 0, 8, 1, 2, 3, 4})
	case "undefined-ptype":
		return ast.NewHSMSControlMessage([]byte{0, 0, 0, 0, 1, 1, 1, 2, 3, 4})
	case "data message":
		return ast.NewHSMSDataMessage("", 1, 1, 0, "H->E", ast.NewEmptyItemNode(), 1, sys)
	}
	panic("mkCtrl " + kind)
}

var ctrlKinds = []string{"select.req", "select.rsp", "deselect.req", "deselect.rsp", "linktest.req", "linktest.rsp", "reject.req", "separate.req"}

func driverCtrl(c *Ctx) {
	ci := 0
	// (a) Type() for all 65,536 (PType, SType) pairs, as intervals of the key ptype*256+stype
	if c.want(ci) {
		start, cur := 0, ""
		for key := 0; key <= 65536; key++ {
			t := ""
			if key < 65536 {
				h := []byte{1, 2, 3, 4, byte(key >> 8), byte(key), 9, 8, 7, 6}
				t = typeOf(ast.NewHSMSControlMessage(h))
			}
			if key == 0 {
				cur = t
			}
			if t != cur {
				c.emit(ci, J{"ev": "typeivl", "a": start, "b": key - 1, "type": cur})
				start, cur = key, t
			}
		}
		c.count("ctrl.typesweep")
	}
	ci++
	// (b) all 65,536 session ids for every constructor that takes one, a few codes each
	sys := []byte{0xDE, 0xAD, 0xBE, 0xEF}
	for _, kind := range []string{"select.req", "select.rsp", "deselect.req", "deselect.rsp", "reject.req", "separate.req", "linktest.req", "linktest.rsp"} {
		for _, code := range []int{0, 3, 255} {
			if c.want(ci) {
				start := 0
				var curRest []byte
				curOK := true
				for sid := 0; sid <= 65536; sid++ {
					var rest []byte
					ok := true
					if sid < 65536 {
						b := mkCtrl(kind, uint16(sid), sys, byte(code)).ToBytes()
						rest = clone(b)
						if len(b) >= 6 {
							echo := kind != "linktest.req" && kind != "linktest.rsp"
							if echo {
								ok = b[4] == byte(sid>>8) && b[5] == byte(sid)
								rest[4], rest[5] = 0, 0
							}
						}
					}
					if sid == 0 {
						curRest, curOK = rest, ok
					}
					if sid == 65536 || string(rest) != string(curRest) || ok != curOK {
						c.emit(ci, J{"ev": "sidivl", "kind": kind, "code": code, "a": start, "b": sid - 1, "sidok": curOK,
							"rest": bytesJ(curRest), "sys": bytesJ(sys)})
						start, curRest, curOK = sid, rest, ok
					}
				}
				c.count("ctrl.sidsweep")
			}
			ci++
		}
	}
	// (b') every status / reason code for the constructors that take one, at a few session ids; each message is also
	// decoded from its bytes (intervals of codes on which everything but the code byte is constant)
	for _, kind := range []string{"select.rsp", "deselect.rsp", "reject.req"} {
		for _, sid := range []int{0, 1, 10, 0x0A00, 65535} {
			if c.want(ci) {
				type cls struct {
					rest          string
					codeok, decok bool
				}
				classOf := func(code int) cls {
					b := mkCtrl(kind, uint16(sid), sys, byte(code)).ToBytes()
					r := cls{codeok: len(b) == 14 && b[7] == byte(code)}
					rest := clone(b)
					if len(rest) == 14 {
						rest[7] = 0
					}
					r.rest = string(rest)
					var m ast.HSMSMessage
					var ok bool
					p, _ := try(func() { m, ok = hsms.Parse(exact(b)) })
					r.decok = !p && ok && m != nil && string(m.ToBytes()) == string(b) && typeOf(m) == kind
					return r
				}
				start, prevb := 0, -1
				cur := classOf(0)
				for code := 1; code <= 256; code++ {
					var k cls
					if code < 256 {
						k = classOf(code)
					}
					if code == 256 || k != cur {
						c.emit(ci, J{"ev": "codeivl", "kind": kind, "sid": sid, "a": start, "b": code - 1, "prevb": prevb, "codeok": cur.codeok,
							"decok": cur.decok, "rest": bytesJ([]byte(cur.rest)), "sys": bytesJ(sys)})
						prevb, start, cur = code-1, code, k
					}
				}
				c.count("ctrl.codesweep")
			}
			ci++
		}
	}
	// (c) response constructors against every kind of request
	for rep, rsp := range []string{"select.rsp", "deselect.rsp", "linktest.rsp", "select.rsp", "deselect.rsp", "linktest.rsp", "select.rsp", "deselect.rsp", "linktest.rsp"} {
		for _, rk := range append(append([]string{}, ctrlKinds...), "undefined", "undefined-ptype", "data message") {
			if c.want(ci) {
				g := c.gen(ci)
				s4 := make([]byte, 4)
				g.r.Read(s4)
				sid := uint16(g.pick(65536))
				req := mkCtrl(rk, sid, s4, byte(g.pick(256)))
				// (first round: as the constructors make it; second round: as it may arrive from the wire; third: either)
				if _, isData := req.(*ast.DataMessage); !isData && (rep/3 == 1 || (rep/3 == 2 && g.pick(2) == 0)) {
					// the same kind of request as it may arrive from the wire: header bytes 2 and 3 are not zero
					h, _ := ast.VerifControlHeader(req)
					h[2], h[3] = byte(1+g.pick(255)), byte(1+g.pick(255))
					req = ast.NewHSMSControlMessage(h)
				}
				status := byte(g.pick(256))
				var m ast.HSMSMessage
				refused, _ := try(func() {
					switch rsp {
					case "select.rsp":
						m = ast.NewHSMSMessageSelectRsp(req, status)
					case "deselect.rsp":
						m = ast.NewHSMSMessageDeselectRsp(req, status)
					default:
						m = ast.NewHSMSMessageLinktestRsp(req)
					}
				})
				ev := J{"ev": "pairing", "rsp": rsp, "reqtype": typeOf(req), "reqkind": rk, "refused": refused, "status": int(status),
					"req": bytesJ(req.ToBytes()), "bytes": []int{}, "type": ""}
				if !refused {
					ev["bytes"], ev["type"] = bytesJ(m.ToBytes()), typeOf(m)
				}
				c.emit(ci, ev)
				c.count("ctrl.pairing")
			}
			ci++
		}
	}
	// (c-bis) request constructors given more than four system bytes (the tail of a received frame with a body, an
	// 8-byte counter passed whole): refused, or a 14-byte message like any other that decodes to itself
	for _, kind := range []string{"select.req", "deselect.req", "linktest.req", "reject.req", "separate.req"} {
		for _, n := range []int{5, 6, 8, 12} {
			if c.want(ci) {
				g := c.gen(ci)
				buf := make([]byte, 10+n+g.pick(6))
				g.r.Read(buf)
				sys := buf[10 : 10+n]
				sid, code := uint16(g.pick(65536)), byte(g.pick(256))
				var m ast.HSMSMessage
				refused, _ := try(func() { m = mkCtrl(kind, sid, sys, code) })
				ev := J{"ev": "sysover", "kind": kind, "sid": int(sid), "code": int(code), "sys": bytesJ(sys), "refused": refused,
					"bytes": []int{}, "type": "", "ok": false, "same": false}
				if !refused {
					b := m.ToBytes()
					ev["bytes"], ev["type"] = bytesJ(b), typeOf(m)
					d := decode(b, poisoned)
					ev["ok"] = d.ok
					if d.ok {
						ev["same"] = string(d.m.ToBytes()) == string(b) && typeOf(d.m) == typeOf(m)
					}
				}
				c.emit(ci, ev)
				c.count("ctrl.sysover")
			}
			ci++
		}
	}
	// (c') pairs of different messages of one kind with equal 32-bit checksums (CRC-32 IEEE and Castagnoli, FNV-1 and
	// FNV-1a, Adler-32; of the header and of the whole frame), decoded one after the other: the second is itself
	hashes := []func([]byte) uint32{
		crc32.ChecksumIEEE,
		func(b []byte) uint32 { return crc32.Checksum(b, crc32.MakeTable(crc32.Castagnoli)) },
		func(b []byte) uint32 { f := fnv.New32(); f.Write(b); return f.Sum32() },
		func(b []byte) uint32 { f := fnv.New32a(); f.Write(b); return f.Sum32() },
		adler32.Checksum,
	}
	for hi, h := range hashes {
		for _, framed := range []bool{false, true} {
			if c.want(ci) {
				stype := []byte{1, 2, 3, 5, 9}[hi]
				a, b, found := collidingHeaders(stype, uint16(hi), h, framed)
				if found {
					decodeEvent(append([]byte{0, 0, 0, 10}, a...))
					m := ast.NewHSMSControlMessage(clone(b))
					ev := decodeEvent(m.ToBytes())
					ev["ev"] = "ctrlraw"
					ev["hdr"] = bytesJ(b)
					ev["type"] = typeOf(m)
					ev["again"] = bytesJ(m.ToBytes())
					c.emit(ci, ev)
					c.count("ctrl.collision-pairs")
				}
			}
			ci++
		}
	}
	// (c'') control messages of all kinds decoded by four goroutines at once, after decodes that were refused inside the
	// ast package: every one comes back as itself (the first that does not is recorded, else a sample)
	if c.want(ci) {
		for _, p := range [][]byte{{0, 0, 0, 10, 0, 1, 0x81, 2, 0, 0, 0, 0, 0, 1}, {0, 0, 0, 16, 0, 1, 1, 1, 0, 0, 0, 0, 0, 1, 0x91, 0x04, 0x7F, 0xC0, 0, 0}} {
			try(func() { hsms.Parse(p) })
			try(func() { hsms.Parse(p) })
		}
		var mu sync.Mutex
		var bad J
		var wg sync.WaitGroup
		for w := 0; w < 4; w++ {
			wg.Add(1)
			go func(w int) {
				defer wg.Done()
				for n := 0; n < 400; n++ {
					kind := ctrlKinds[(n+w)%len(ctrlKinds)]
					m := mkCtrl(kind, uint16(w*1000+n), []byte{byte(w), byte(n >> 8), byte(n), 0x5A}, byte(n))
					want := m.ToBytes()
					var got ast.HSMSMessage
					var ok bool
					p, _ := try(func() { got, ok = hsms.Parse(exact(want)) })
					if p || !ok || got == nil || string(got.ToBytes()) != string(want) || typeOf(got) != kind {
						mu.Lock()
						if bad == nil {
							h, _ := ast.VerifControlHeader(m)
							bad = J{"bytes": bytesJ(want), "ok": ok && !p, "pok": ok && !p, "panic": p, "hdrs": []interface{}{}, "same2": false, "bytes2": []int{},
								"psame2": false, "pbytes2": []int{}, "msg2": projHSMS(got), "type2": "", "hdr": bytesJ(h), "type": kind, "again": bytesJ(want)}
							if got != nil {
								bad["type2"] = typeOf(got)
							}
						}
						mu.Unlock()
						return
					}
				}
			}(w)
		}
		wg.Wait()
		if bad == nil {
			m := mkCtrl("select.req", 7, []byte{1, 2, 3, 4}, 0)
			bad = decodeEvent(m.ToBytes())
			h, _ := ast.VerifControlHeader(m)
			bad["hdr"], bad["type"], bad["again"] = bytesJ(h), typeOf(m), bytesJ(m.ToBytes())
		}
		bad["ev"] = "ctrlraw"
		bad["concurrent"] = true
		c.emit(ci, bad)
		c.count("ctrl.concurrent")
	}
	ci++
	// (d) raw headers: construction, type, bytes, decode
	for k := 0; k < c.N; k++ {
		if c.want(ci) {
			g := c.gen(ci)
			h := make([]byte, 10)
			g.r.Read(h)
			switch g.pick(4) {
			case 0, 1:
				h[4] = 0
				h[5] = []byte{1, 2, 3, 4, 5, 6, 7, 9}[g.pick(8)]
			case 2:
				h[4] = 0
				h[5] = []byte{0, 8, 10, 11, 127, 128, 255}[g.pick(7)]
			}
			arg := clone(h)
			m := ast.NewHSMSControlMessage(arg)
			for i := range arg {
				arg[i] ^= 0x5A // the caller's slice must not be retained
			}
			b := m.ToBytes()
			if k%3 == 1 {
				poisonDecode(g)
			}
			ev := decodeEvent(b)
			ev["ev"] = "ctrlraw"
			ev["hdr"] = bytesJ(h)
			ev["type"] = typeOf(m)
			out := m.ToBytes()
			out[len(out)-1] ^= 0xFF // neither must the returned slice alias the message
			ev["again"] = bytesJ(m.ToBytes())
			c.emit(ci, ev)
			c.count("ctrl.raw")
		}
		ci++
	}
}

// poisonDecode makes a decode that fails inside the decoder: nothing of it may be left behind for the next call.
func poisonDecode(g *Gen) {
	decodeEvent([][]byte{
		{0, 0, 0, 15, 0, 1, 1, 1, 0, 0, 0, 0, 0, 1, 0x01, 0x02, 0xA5, 0x01, 0x07}, // list of two with one element
		{0, 0, 0, 10, 0, 1, 0x81, 2, 0, 0, 0, 0, 0, 1},                            // wait bit on a reply
		{0, 0, 0, 13, 0, 1, 1, 1, 0, 0, 0, 0, 0, 1, 0xB1, 0x04, 0x01},             // U4 cut short
		{0, 0, 0, 12, 0, 1, 1, 1, 0, 0, 0, 0, 0, 1, 0xFD, 0x00},                   // undefined format code
	}[g.pick(4)])
}
