package main

// Drivers for the SML front end (C04, C05, C06, C08, C15, C19).

import (
	"fmt"
	"math"
	"regexp"
	"strconv"
	"strings"
	"time"
	"unicode"
	"unicode/utf8"

	"github.com/wolimst/lib-secs2-hsms-go/pkg/ast"
	"github.com/wolimst/lib-secs2-hsms-go/pkg/parser/sml"
)

// textChars encodes a text for the specification: an ASCII char is its code; anything else is
// 1000000 + width*100000 + class*1000 + lastByte (class 1 space, 2 letter, 3 digit, 4 other, 5 invalid byte).
func textChars(s string) []int {
	r := make([]int, 0, len(s))
	for i := 0; i < len(s); {
		c, w := utf8.DecodeRuneInString(s[i:])
		if c < utf8.RuneSelf && w == 1 {
			r = append(r, int(c))
			i++
			continue
		}
		cls := 4
		switch {
		case c == utf8.RuneError && w == 1:
			cls = 5
		case unicode.IsSpace(c):
			cls = 1
		case unicode.IsLetter(c):
			cls = 2
		case unicode.IsDigit(c):
			cls = 3
		}
		r = append(r, 1000000+w*100000+cls*1000+int(s[i+w-1]))
		i += w
	}
	return r
}

// hangCount counts parses abandoned by the watchdog; after three the driver stops early (see Ctx.emit)
var hangCount int

var diagRe = regexp.MustCompile(`(?s)^Ln (\d+), Col (\d+): (.*)$`)

func diagsJ(ds []string) []interface{} {
	r := make([]interface{}, len(ds))
	for i, d := range ds {
		m := diagRe.FindStringSubmatch(d)
		if m == nil {
			r[i] = J{"ln": -1, "col": -1, "text": textChars(d)}
			continue
		}
		ln, e1 := strconv.Atoi(m[1])
		col, e2 := strconv.Atoi(m[2])
		if e1 != nil || e2 != nil || ln > 1<<30 || col > 1<<30 {
			ln, col = -1, -1
		}
		r[i] = J{"ln": ln, "col": col, "text": textChars(m[3])}
	}
	return r
}

var floatTokRe = regexp.MustCompile(`[+-]?(?:[0-9]+\.?[0-9]*|\.[0-9]+)(?:[eE][+-]?[0-9]+)?`)

// floatOracle: what strconv.ParseFloat says about every decimal number spelling in the text, for both widths
func floatOracle(text string) []interface{} {
	seen := map[string]bool{}
	out := []interface{}{}
	for _, tok := range floatTokRe.FindAllString(text, -1) {
		if seen[tok] || len(tok) > 400 {
			continue
		}
		seen[tok] = true
		for _, w := range []int{4, 8} {
			v, err := strconv.ParseFloat(tok, w*8)
			rng := false
			if err != nil {
				if ne, ok := err.(*strconv.NumError); ok && ne.Err == strconv.ErrRange {
					rng = true
				} else {
					continue
				}
			}
			bits := []int{}
			if !rng && !math.IsInf(v, 0) && !math.IsNaN(v) {
				bits = floatJ(v, w)["bits"].([]int)
			}
			out = append(out, J{"tok": chars(tok), "w": w, "range": rng, "bits": bits})
		}
	}
	return out
}

func projMsgs(ms []*ast.DataMessage) []interface{} {
	r := make([]interface{}, len(ms))
	for i, m := range ms {
		r[i] = projMsg(m)
	}
	return r
}

// parseEvent runs the real parser on a text and records everything it returned.
func parseEvent(text string) J {
	var msgs []*ast.DataMessage
	var errs, warns []string
	// the parse runs under a watchdog: a call that does not come back (deadlocked on the token channel, or
	// looping) is recorded with outcome "hang"; its goroutine is abandoned
	var panicked bool
	var pmsg string
	done := make(chan bool, 1)
	go func() {
		panicked, pmsg = try(func() { msgs, errs, warns = sml.Parse(text) })
		done <- true
	}()
	// generous and quadratic in the input length: deeply nested lists take quadratic time (every list factory lists the
	// variables of its whole subtree) - 23 s for 20 000 levels / 80 kB - and that is slow, not hung
	kb := len(text)/1000 + 1
	limit := 20*time.Second + time.Duration(kb*kb)*10*time.Millisecond
	if limit > 600*time.Second {
		limit = 600 * time.Second
	}
	hung := false
	select {
	case <-done:
	case <-time.After(limit):
		hung = true
		hangCount++
		msgs, errs, warns = nil, nil, nil
	}
	ev := J{"text": textChars(text), "bytelen": len(text), "outcome": "returned", "msgs": []interface{}{}, "errs": []interface{}{},
		"warns": []interface{}{}, "floats": floatOracle(text)}
	if hung {
		ev["outcome"] = "hang"
		return ev
	}
	if panicked {
		ev["outcome"] = "panic"
		ev["panicmsg"] = pmsg
		return ev
	}
	ev["msgs"] = projMsgs(msgs)
	ev["errs"] = diagsJ(errs)
	ev["warns"] = diagsJ(warns)
	return ev
}

var lexStateNames = map[string]string{"lexMessageHeader": "header", "lexMessageText": "text", "lexComment": "comment",
	"lexNumber": "number", "lexDataItemSize": "size", "lexQuotedString": "quoted", "lexEOF": "eof"}

// lexEvent records the token stream and the state-function steps of the real lexer.
func lexEvent(text string, textState bool) J {
	toks, steps := sml.VerifLex(text, textState)
	tj := make([]interface{}, len(toks))
	for i, t := range toks {
		v := textChars(t.Val)
		if t.Typ == "Error" {
			v = []int{}
		}
		tj[i] = J{"t": t.Typ, "v": v, "l": t.Line, "c": t.Col}
	}
	sj := make([]interface{}, len(steps))
	for i, s := range steps {
		n := lexStateNames[s.State]
		if n == "" {
			n = s.State
		}
		sj[i] = J{"state": n, "pos": s.Pos, "start": s.Start}
	}
	return J{"text": textChars(text), "textstate": textState, "toks": tj, "steps": sj}
}

func init() {
	drivers["lex"] = driverLex
	drivers["soup"] = driverSoup
}

// vocabulary of the SML grammar plus hostile fragments
var soupFrags = []string{
	"S1F1", "s2f3", "S127F255", "S128F1", "S1F256", "S128F256", "S999F999", "S99999999999999999999F1", "S99999999999999999999F99999999999999999999", "S0F0", " W", " [W]", " w", " H->E", " H<-E", " H<->E", " h->e",
	" Name", " x.y", ".", ".", "\n", "\r\n", " ", "\t", "<", ">", "<L", "<L[2]", "<A", "<B", "<BOOLEAN", "<F4", "<F8", "<I1", "<I2", "<I4", "<I8",
	"<U1", "<U2", "<U4", "<U8", "<a", "<boolean", " [3]", " [1..2]", " [..4]", " [2..]", " [ 1 .. 2 ]", " [99999999999999999999]", " [0]",
	" \"abc\"", " \"\"", " \"a b\"", " \"a\\b\"", " \"x//y\"", " 0x41", " 65", " 128", " T", " F", " t", " true", " var", " v1[0]", " v1[0][1]", " _x",
	" ...", " ...[0]", " ...[7]", " 1", " -1", " +1", " 0", " 255", " 256", " 0xFF", " 0b101", " 0o17", " 017", " 1.5", " -2e3", " 1e400", " .5",
	" 9223372036854775807", " 9223372036854775808", " -9223372036854775808", " 18446744073709551615", " 18446744073709551616", " 12345678901234567890123",
	" // comment", " // c \r\n", "//x\n", " 1_0", " 0x", " 1e", " +", " -", " 0b2", " 42abc", " 0b102", " 0o78", " 0x1G", " 1.5.5", " . .", " . . .", " ..", " <A 321>", " <A 256>", "é", "\u2003", "\u00a0", "\u0085", "\v", "\f", "\xff", "\xc3",
	" \"é\"", " \"\xff\"", " \u017f1f1", " \"a\\\" \"b\"", " \"100%\"", " \"unclosed", " \"line\nbreak\"", " \"\nx\"", " [", " [x]", " ]", " @", " #", " W<", " S1F1<", "<L<A \"x\">>", "<L v ... >",
	// line breaks and comments inside a size declaration (the only token that can span lines)
	" [1\n]", " [\n2 ]", " [1 // c\n..3]", " [ 0\r\n.. 2 ]", "<U1[1\n] 256>", "<L [2\n] <A[\n1] \"ab\">>",
	// digits and letters outside ASCII, also directly behind a dot, a sign, an exponent or a name
	".\u0663", " \u0663", "\u0663", "\uff15", " e.\u0663", " 1.\u0663", " 1\u0663", " -\u0969", " 1e\u0663", " x\u0663", " 0x\uff21", "\u00b2", " v[\u0661]", " [\u0662]", " S\u0661F\u0661",
}

func (g *Gen) soup(n int) string {
	var sb strings.Builder
	for i := 0; i < n; i++ {
		sb.WriteString(soupFrags[g.pick(len(soupFrags))])
	}
	return sb.String()
}

// a syntactically plausible message assembled from the vocabulary (so that many texts are accepted)
func (g *Gen) plausible() string {
	var sb strings.Builder
	nm := 1 + g.pick(3)
	for m := 0; m < nm; m++ {
		fn := g.pick(256)
		switch g.pick(40) {
		case 0:
			fmt.Fprintf(&sb, "S%dF%d", 128+g.pick(900), 256+g.pick(900))
		case 1, 2:
			fmt.Fprintf(&sb, "S%dF%d", g.pick(130), g.pick(258))
		default:
			fmt.Fprintf(&sb, "S%dF%d", g.pick(128), fn)
		}
		w := []string{"", " W", " [W]", " w"}[g.pick(4)]
		if fn%2 == 0 && g.pick(8) != 0 && (w == " W" || w == " w") {
			w = " [W]" // W on an even function is an error; keep that rare
		}
		sb.WriteString(w)
		sb.WriteString([]string{" H->E", " H<-E", " H<->E", "", " h<->e"}[g.pick(5)])
		sb.WriteString([]string{"", " Name", " n.1", " <"}[g.pick(4)])
		sb.WriteString([]string{"\n", " ", "\r\n", " // c\n"}[g.pick(4)])
		if g.pick(6) != 0 {
			sb.WriteString(g.plausibleItem(2))
		}
		sb.WriteString([]string{".", "\n.", " .\n", ".", " .", ""}[g.pick(6)])
		sb.WriteString([]string{"", "\n", " ", "// end\n"}[g.pick(4)])
	}
	return sb.String()
}

var intLits = []string{"0", "1", "-1", "+1", "127", "128", "-128", "-129", "255", "256", "32767", "32768", "-32768", "-32769", "65535", "65536",
	"2147483647", "2147483648", "-2147483648", "-2147483649", "4294967295", "4294967296", "9223372036854775807", "9223372036854775808",
	"-9223372036854775808", "-9223372036854775809", "18446744073709551615", "18446744073709551616", "0x7F", "0X80", "0xff", "0x100", "0xFFFF",
	"0x10000", "0xFFFFFFFF", "0x100000000", "0x7FFFFFFFFFFFFFFF", "0x8000000000000000", "0xFFFFFFFFFFFFFFFF", "0x10000000000000000", "-0x80", "-0x81",
	"0b1111111", "0B10000000", "0b11111111", "0b100000000", "0o177", "0O200", "0o377", "0o400", "017", "010", "08", "-0", "+0", "00",
	"0b102", "0b12", "0B1012", "0o78", "0O178", "-0b1019", "0x1G", "0xfg", "1_0", "256", "321", "511", "0x141", "0b100000001"}
var floatLits = []string{"7.038531e-26", "1.00000005960464478", "3.4028235677973366e38", "1.0000000596046448", "0.1000000014901161", "8.5070591730234616e37", "1.17549435082228751e-38", "0", "1", "-1", "1.5", "-2.25", ".5", "5.", "1e3", "1E-3", "-1.5e+2", "3.4028235e38", "3.4028236e38", "1e39", "-1e39", "1e-46",
	"1.7976931348623157e308", "1.8e308", "1e400", "4.9e-324", "1e-400", "0.1", "16777217", "0x10", "0b1", "1e", "1.e2", "+.5e1"}

func (g *Gen) plausibleItem(depth int) string {
	types := []string{"L", "A", "B", "BOOLEAN", "F4", "F8", "I1", "I2", "I4", "I8", "U1", "U2", "U4", "U8"}
	ty := types[g.pick(len(types))]
	if depth == 0 && ty == "L" {
		ty = "U1"
	}
	shown := ty
	if g.pick(4) == 0 {
		shown = strings.ToLower(ty)
	}
	var vals []string
	n := g.pick(4)
	switch ty {
	case "L":
		for i := 0; i < n; i++ {
			switch g.pick(8) {
			case 0:
				vals = append(vals, g.newVar())
			case 1:
				vals = append(vals, []string{"...", "...[0]", "...[1]"}[g.pick(3)])
			default:
				vals = append(vals, g.plausibleItem(depth-1))
			}
		}
	case "A":
		for i := 0; i < n; i++ {
			switch g.pick(6) {
			case 0:
				vals = append(vals, []string{"0x41", "65", "0", "127", "128", "0x7f", "0b1000001"}[g.pick(7)])
			case 1:
				vals = append(vals, g.newVar())
			default:
				vals = append(vals, []string{`"abc"`, `""`, `"a b"`, `"C:\dir"`, `"a\b"`, `"x//y"`, `"<L>"`, `"tab	x"`, `"é"`}[g.pick(9)])
			}
		}
	case "BOOLEAN":
		for i := 0; i < n; i++ {
			vals = append(vals, []string{"T", "F", "t", "f", "1", g.newVar()}[g.pick(6)])
		}
	case "F4", "F8":
		for i := 0; i < n; i++ {
			if g.pick(8) == 0 {
				vals = append(vals, g.newVar())
			} else {
				vals = append(vals, floatLits[g.pick(len(floatLits))])
			}
		}
	default:
		for i := 0; i < n; i++ {
			switch g.pick(20) {
			case 0, 1:
				vals = append(vals, g.newVar())
			case 2:
				vals = append(vals, []string{"1.5", "T", `"s"`, "1e2"}[g.pick(4)])
			case 3, 4, 5:
				vals = append(vals, intLits[g.pick(len(intLits))])
			default: // fits every width, signed or not
				vals = append(vals, []string{"0", "1", "7", "0x7F", "0b101", "0o17", "100", "0X10", "127", "00"}[g.pick(10)])
			}
		}
	}
	size := ""
	switch g.pick(16) {
	case 0:
		size = fmt.Sprintf("[%d]", n)
	case 1:
		size = fmt.Sprintf("[%d]", n+1)
	case 2:
		size = fmt.Sprintf("[%d..%d]", g.pick(3), n+g.pick(2))
	case 3:
		size = fmt.Sprintf("[..%d]", g.pick(4))
	case 4:
		size = fmt.Sprintf("[ %d .. ]", g.pick(4))
	}
	sep := []string{" ", "\n  ", "  "}[g.pick(3)]
	return "<" + shown + size + sep + strings.Join(vals, sep) + []string{">", " >", "\n>"}[g.pick(3)]
}

// lex: the lexer alone, in both start states, on soups
func driverLex(c *Ctx) {
	for i := 0; i < c.N; i++ {
		if !c.want(i) {
			continue
		}
		g := c.gen(i)
		text := g.soup(1 + g.pick(10))
		if g.pick(3) == 0 {
			text = g.plausible()
		}
		ev := lexEvent(text, g.pick(2) == 0)
		ev["ev"] = "lex"
		c.emit(i, ev)
		c.count("lex.cases")
	}
}

// soup: the parser on token soups and plausible messages
func driverSoup(c *Ctx) {
	for i := 0; i < c.N; i++ {
		if !c.want(i) {
			continue
		}
		g := c.gen(i)
		var text string
		how := "soup"
		switch g.pick(4) {
		case 0:
			text = g.soup(1 + g.pick(14))
		case 1:
			// a plausible text with a few random byte-level mutations (flip, insert, delete, duplicate a span)
			how = "mutated"
			b := []byte(g.plausible())
			for k := 0; k < 1+g.pick(4) && len(b) > 0; k++ {
				pos := g.pick(len(b))
				switch g.pick(5) {
				case 0:
					b[pos] ^= byte(1 << uint(g.pick(8)))
				case 1:
					b = append(b[:pos], append([]byte{byte(g.pick(256))}, b[pos:]...)...)
				case 2:
					b = append(b[:pos], b[pos+1:]...)
				case 3:
					end := pos + g.pick(12)
					if end > len(b) {
						end = len(b)
					}
					b = append(b[:end], append(append([]byte{}, b[pos:end]...), b[end:]...)...)
				default:
					alphabet := "<>.\"[]/ \n\t0x"
					b[pos] = alphabet[g.pick(len(alphabet))]
				}
			}
			text = string(b)
		default:
			text = g.plausible()
		}
		ev := parseEvent(text)
		ev["ev"] = "parse"
		ev["how"] = how
		c.emit(i, ev)
		c.count("soup." + ev["outcome"].(string))
		if len(ev["msgs"].([]interface{})) > 0 {
			c.count("soup.accepted")
		}
	}
}
