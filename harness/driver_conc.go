package main

// C17: shared items, messages and parsers are safe for concurrent use.
// Every concurrent configuration enumerated by TLC (spec/MCConcurrency) is executed by real goroutines released
// from a barrier, in a -race build of this harness (GORACE=halt_on_error=1: a race report kills the process,
// which the isolated-worker protocol turns into outcome "abort"). The results of the concurrent calls are compared
// with the results of the same calls executed alone afterwards (afterwards: running them first would warm any cache).

import (
	"bufio"
	"crypto/sha1"
	"encoding/hex"
	"encoding/json"
	"fmt"
	"os"
	"os/exec"
	"sort"
	"strings"
	"sync"
	"time"

	"github.com/wolimst/lib-secs2-hsms-go/pkg/ast"
	"github.com/wolimst/lib-secs2-hsms-go/pkg/parser/hsms"
	"github.com/wolimst/lib-secs2-hsms-go/pkg/parser/sml"
)

func init() {
	drivers["conc"] = driverConc
	drivers["conc-cold"] = driverConcCold
	drivers["conc-hammer"] = driverConcHammer
}

type concCall struct {
	Op  string `json:"op"`
	Obj string `json:"obj"`
}

type shared struct {
	template ast.ItemNode
	message  *ast.DataMessage
	complete *ast.DataMessage
	bytes    []byte
	smlText  string
	cold     bool         // a cold process: fills use repeat counts no earlier call has used
	variants [][]byte     // the decoder's inputs: the complete message with one value changed, by call position
	wide     ast.ItemNode // the wide list that is part of all three shared objects
}

func newShared() *shared {
	// one wide list (70 direct items, one of them a list of 40) is part of the template, of the message on it and - two
	// levels further down - of the complete message: the same node is printed, encoded and listed at several depths at once
	var wideKids []interface{}
	for k := 0; k < 70; k++ {
		wideKids = append(wideKids, ast.NewUintNode(1, k))
	}
	var inner []interface{}
	for k := 0; k < 40; k++ {
		inner = append(inner, ast.NewASCIINode(fmt.Sprint("w", k)))
	}
	wideKids[35] = ast.NewListNode(inner...)
	wide := ast.NewListNode(wideKids...)
	t := ast.NewListNode(ast.NewUintNode(1, "x", 7), ast.NewASCIINodeVariable("s", 1, 3), "v",
		ast.NewListNode(ast.NewIntNode(2, "y"), "...[0]"), wide, "...[1]")
	s := &shared{template: t, wide: wide}
	// (the text the SML parser calls share is the small template without the wide list: parsing is the slowest call)
	if h, err := hex.DecodeString(os.Getenv("VERIF_CONC_SML")); err == nil && len(h) > 0 {
		s.smlText = string(h) // a cold process gets the text from its parent, so that it has not printed anything yet
	} else {
		s.smlText = ast.NewDataMessage("msg", 1, 1, 2, "H->E", ast.NewListNode(ast.NewUintNode(1, "x", 7), ast.NewASCIINodeVariable("s", 1, 3), "v",
			ast.NewListNode(ast.NewIntNode(2, "y"), "...[0]"), "...[1]")).String()
	}
	s.message = ast.NewDataMessage("msg", 1, 1, 2, "H->E", t)
	// (more than a page of text, and never encoded or printed before the goroutines get it: nothing is warm.
	// The bytes for the decoder come from a twin.)
	long := make([]interface{}, 100) // an array of a hundred values (what a decoder might keep in a pooled scratch slice)
	for k := range long {
		long[k] = 1000 + k
	}
	mk := func() *ast.DataMessage {
		return ast.NewHSMSDataMessage("c", 3, 5, 1, "H<-E",
			ast.NewListNode(ast.NewASCIINode("text"), ast.NewFloatNode(8, 1.5, -2.25), ast.NewBinaryNode(1, 2, 255), ast.NewUintNode(2, long...),
				ast.NewASCIINode(strings.Repeat("0123456789abcdef", 320)), deepAround(wide, 36)), 77, []byte{9, 8, 7, 6})
	}
	s.complete = mk()
	if h, err := hex.DecodeString(os.Getenv("VERIF_CONC_BYTES")); err == nil && len(h) > 0 {
		s.bytes = h // a cold process gets them from its parent, so that it has not encoded anything yet
		s.cold = true
	} else {
		s.bytes = mk().ToBytes()
	}
	// three inputs that differ in the long array: U2 1000.. / 2000.. / 3000.. (the first value's high byte)
	at := strings.Index(string(s.bytes), string([]byte{0x03, 0xE8, 0x03, 0xE9}))
	for v := 0; v < 3; v++ {
		b := clone(s.bytes)
		if at >= 0 {
			for k := 0; k < 100; k++ {
				val := 1000*(v+1) + k
				b[at+2*k], b[at+2*k+1] = byte(val>>8), byte(val)
			}
		}
		s.variants = append(s.variants, b)
	}
	return s
}

// deepAround: x under d enclosing lists, each with a small sibling in front (printing, encoding and listing at depths
// that nothing in the process has reached before the goroutines do)
func deepAround(x ast.ItemNode, d int) ast.ItemNode {
	for k := 0; k < d; k++ {
		x = ast.NewListNode(ast.NewUintNode(1, k), x)
	}
	return x
}

// coldTimes: in a cold process every call of the configuration is made by three goroutines, so that whatever the
// first use of something sets up is set up by several of them at once.
func coldTimes(cs []concCall) []concCall {
	if os.Getenv("VERIF_CONC_BYTES") == "" {
		return cs
	}
	return append(append(append([]concCall{}, cs...), cs...), cs...)
}

// fillCount: the repeat count a Fill call uses. In a cold process (conc-cold) it is above 255 and different for every
// call position, so that concurrent fills need indices no earlier call of the process has used.
func (s *shared) fillCount(c concCall) int {
	if !s.cold {
		return 2
	}
	switch c.Obj {
	case "template":
		return 300
	case "message":
		return 420
	}
	return 510
}

func dig(v interface{}) string {
	b, _ := json.Marshal(v)
	h := sha1.Sum(b)
	return hex.EncodeToString(h[:6])
}

// exec runs one call. tag makes the names it introduces fresh (never seen by the process before).
func (s *shared) exec(c concCall, tag string, pos int) string {
	if s.cold && pos%3 == 1 && (c.Op == "String" || c.Op == "ToBytes" || c.Op == "Variables") {
		// in a cold process every third observer call goes to the complete message, whose lists are nested deeper than
		// anything the process has printed, encoded or listed before
		c.Obj = "complete"
	}
	item := func() ast.ItemNode {
		switch c.Obj {
		case "template":
			return s.template
		case "message":
			return ast.VerifDataItem(s.message)
		}
		return ast.VerifDataItem(s.complete)
	}
	msg := func() *ast.DataMessage {
		if c.Obj == "message" {
			return s.message
		}
		return s.complete
	}
	// names are normalised before hashing so that the result does not depend on the tag
	norm := func(x string) string { return strings.ReplaceAll(x, tag, "TAG") }
	out := "?"
	panicked, pm := try(func() {
		switch c.Op {
		case "String":
			if c.Obj == "template" {
				out = dig(fmt.Sprint(s.template))
			} else {
				out = dig(msg().String())
			}
		case "ToBytes":
			if c.Obj == "template" {
				out = dig(s.template.ToBytes())
			} else {
				out = dig(msg().ToBytes())
			}
		case "Variables":
			if c.Obj == "template" {
				out = dig(s.template.Variables())
			} else {
				v := msg().Variables()
				sort.Strings(v) // what an observer returns is the caller's
				out = dig(v)
			}
		case "Size":
			out = dig(s.template.Size())
		case "Header":
			out = dig(msg().Header())
		case "Fill":
			vals := map[string]interface{}{"...[0]": s.fillCount(c), "x": 5, "s": "ab", "v": "fresh_" + tag, "y": "ren_" + tag, "unknown": 1}
			if c.Obj == "template" {
				out = dig(norm(fmt.Sprint(s.template.FillVariables(vals))))
			} else {
				out = dig(norm(msg().FillVariables(vals).String()))
			}
		case "SetWaitBit":
			m := msg().SetWaitBit(false)
			out = dig([]interface{}{m.String(), m.ToBytes()})
		case "SetSession":
			m := msg().SetSessionIDAndSystemBytes(4660, []byte{1, 2, 3, 4})
			out = dig([]interface{}{m.String(), m.SessionID(), m.SystemBytes(), m.ToBytes()})
		case "SmlParse":
			text := strings.NewReplacer(" x ", " x"+tag+" ", " s>", " s"+tag+">", "\n  v\n", "\n  v"+tag+"\n", " y>", " y"+tag+">").Replace(s.smlText)
			ms, errs, warns := sml.Parse(text)
			var r []string
			for _, m := range ms {
				r = append(r, norm(m.String()))
			}
			out = dig([]interface{}{r, errs, warns})
		case "HsmsParse":
			m, ok := hsms.Parse(s.variants[pos%len(s.variants)])
			if ok {
				out = dig([]interface{}{ok, m.ToBytes(), fmt.Sprint(ast.VerifDataItem(m.(*ast.DataMessage)))})
			} else {
				out = dig(ok)
			}
		}
		_ = item
	})
	if panicked {
		return "panic:" + pm
	}
	return out
}

func driverConc(c *Ctx) {
	configs := readConfigs(c.In)
	rounds := c.N
	for i := c.From; i < len(configs); i++ {
		if !c.want(i) {
			continue
		}
		cs := coldTimes(configs[i])
		cj := []interface{}{}
		for _, x := range cs {
			cj = append(cj, J{"op": x.Op, "obj": x.Obj})
		}
		c.emit(i, J{"ev": "begin", "variant": 0, "calls": cj})
		c.out.Flush()
		// decodes that are refused inside the ast package (a W-bit on a reply, a NaN), before anything else: what they
		// leave behind must not reach the calls that follow
		for _, p := range [][]byte{
			{0, 0, 0, 10, 0, 1, 0x81, 2, 0, 0, 0, 0, 0, 1},
			append([]byte{0, 0, 1, 14 + 3, 0, 1, 0x81, 2, 0, 0, 0, 0, 0, 1, 0xA9, 0xC8}, make([]byte, 200)...), // W on a reply behind <U2[100]> ... (total length 10+3+200+... see below)
			{0, 0, 0, 16, 0, 1, 1, 1, 0, 0, 0, 0, 0, 1, 0x91, 0x04, 0x7F, 0xC0, 0, 0},
		} {
			if len(p) > 14 && p[14] == 0xA9 {
				n := len(p) - 4
				p[0], p[1], p[2], p[3] = byte(n>>24), byte(n>>16), byte(n>>8), byte(n)
			}
			try(func() { hsms.Parse(p) })
		}
		s := newShared()
		// observers are cheap: many more rounds for configurations made of observers only
		rounds := rounds
		cheap := true
		for _, x := range cs {
			if x.Op != "String" && x.Op != "ToBytes" && x.Op != "Variables" && x.Op != "Size" && x.Op != "Header" {
				cheap = false
			}
		}
		reps := 1
		if cheap {
			reps = 4 // back to back inside every goroutine: the calls overlap at ever different phases
		}
		got := make([][]string, rounds)
		for r := 0; r < rounds; r++ {
			got[r] = make([]string, len(cs))
			var wg sync.WaitGroup
			gate := make(chan struct{})
			for k := range cs {
				wg.Add(1)
				go func(k int) {
					defer wg.Done()
					<-gate
					first := s.exec(cs[k], fmt.Sprintf("_%d_%d_%d", i, r, k), k)
					for rep := 1; rep < reps; rep++ {
						if x := s.exec(cs[k], fmt.Sprintf("_%d_%d_%d", i, r, k), k); x != first {
							first = x + "(!=" + first + ")" // the same call gave two answers
							break
						}
					}
					got[r][k] = first
				}(k)
			}
			close(gate)
			wg.Wait()
		}
		// the same calls alone: on a twin of the shared objects that no goroutine has touched (the reference), and after
		// the concurrent phase on the shared objects themselves (damage that stays would show in both the concurrent
		// and the later answers, but not in the twin's)
		twin := newShared()
		solo := make([]string, len(cs))
		after := make([]string, len(cs))
		for k := range cs {
			solo[k] = twin.exec(cs[k], fmt.Sprintf("_%d_solo_%d", i, k), k)
			after[k] = s.exec(cs[k], fmt.Sprintf("_%d_after_%d", i, k), k)
		}
		bad := -1
		for r := 0; r < rounds && bad < 0; r++ {
			for k := range cs {
				if got[r][k] != solo[k] {
					bad = r
				}
			}
		}
		show := got[0]
		if bad >= 0 {
			show = got[bad]
		}
		c.emit(i, J{"ev": "conc", "variant": 1, "calls": cj, "solo": solo, "got": show, "after": after, "rounds": rounds, "outcome": "returned"})
		c.out.Flush()
		c.count("conc.configs")
	}
}

// conc-cold: every selected configuration in a process of its own, so that the concurrent calls are the first calls
// the process ever makes into the library (package-level state initialised on first use is shared by all callers).
// The parent starts this binary again with -only i, one round, -n attempts per configuration; a child killed by a
// race report or a fatal error is recorded as outcome "abort". One event per configuration: the first attempt that
// went wrong, or else the last one.
func driverConcCold(c *Ctx) {
	rows := readConfigs(c.In)
	// one configuration per multiset of operations (the objects do not matter for package-level state);
	// quick: pairs only
	seen := map[string]bool{}
	var pick []int
	for i, cs := range rows {
		ops := []string{}
		for _, x := range cs {
			ops = append(ops, x.Op)
		}
		sort.Strings(ops)
		k := strings.Join(ops, ",")
		if seen[k] || (c.Tier != "thorough" && len(ops) > 2) {
			continue
		}
		seen[k] = true
		pick = append(pick, i)
	}
	out := make([]J, len(pick))
	parentShared := newShared()
	coldBytes := "VERIF_CONC_BYTES=" + hex.EncodeToString(parentShared.bytes)
	coldSml := "VERIF_CONC_SML=" + hex.EncodeToString([]byte(parentShared.smlText))
	refs := make([][]string, len(pick))
	for j, i := range pick {
		ref := newShared()
		ref.cold = true
		for k, x := range append(append(append([]concCall{}, rows[i]...), rows[i]...), rows[i]...) {
			refs[j] = append(refs[j], ref.exec(x, fmt.Sprintf("_%d_ref_%d", i, k), k))
		}
	}
	var wg sync.WaitGroup
	sem := make(chan bool, 12)
	for j := range pick {
		if !c.want(j) {
			continue
		}
		wg.Add(1)
		go func(j int) {
			defer wg.Done()
			sem <- true
			defer func() { <-sem }()
			i := pick[j]
			cj := []interface{}{}
			for rep := 0; rep < 3; rep++ {
				for _, x := range rows[i] {
					cj = append(cj, J{"op": x.Op, "obj": x.Obj})
				}
			}
			for a := 0; a < c.N; a++ {
				tmp, _ := os.CreateTemp("", "cold-*.ndjson")
				tmp.Close()
				cmd := exec.Command(os.Args[0], "conc", "-in", c.In, "-only", fmt.Sprint(i), "-n", "1", "-seed", fmt.Sprint(c.Seed), "-out", tmp.Name())
				cmd.Env = append(os.Environ(), coldBytes, coldSml)
				var stderr strings.Builder
				cmd.Stderr = &stderr
				err := cmd.Run()
				b, _ := os.ReadFile(tmp.Name())
				os.Remove(tmp.Name())
				lines := strings.Split(strings.TrimSpace(string(b)), "\n")
				var last J
				json.Unmarshal([]byte(lines[len(lines)-1]), &last)
				if err != nil || last == nil || last["ev"] != "conc" {
					e := stderr.String()
					if len(e) > 300 {
						e = e[:300]
					}
					out[j] = J{"ev": "conc", "calls": cj, "solo": []string{}, "got": []string{}, "rounds": 1, "outcome": "abort", "stderr_head": e, "attempt": a}
					return
				}
				delete(last, "variant")
				last["attempt"] = a
				// the reference answers come from this process, which has made no concurrent call: state that the child's
				// goroutines damaged for the whole child process would also be in the child's own reference
				last["childsolo"] = last["solo"]
				last["solo"] = refs[j]
				out[j] = last
				if fmt.Sprint(last["got"]) != fmt.Sprint(last["solo"]) || fmt.Sprint(last["after"]) != fmt.Sprint(last["solo"]) {
					return
				}
			}
		}(j)
	}
	wg.Wait()
	for j, e := range out {
		if e != nil {
			e["config"] = pick[j]
			c.emit(j, e)
			c.count("cold.configs")
		}
	}
}

func readConfigs(path string) [][]concCall {
	f, err := os.Open(path)
	if err != nil {
		fmt.Fprintln(os.Stderr, "harness:", err)
		os.Exit(3)
	}
	defer f.Close()
	var configs [][]concCall
	sc := bufio.NewScanner(f)
	sc.Buffer(make([]byte, 1<<20), 1<<24)
	for sc.Scan() {
		var row struct {
			All map[string]concCall `json:"all"`
		}
		if err := json.Unmarshal(sc.Bytes(), &row); err != nil {
			fmt.Fprintln(os.Stderr, "harness: bad config:", err)
			os.Exit(3)
		}
		var cs []concCall
		keys := []string{}
		for k := range row.All {
			keys = append(keys, k)
		}
		sort.Strings(keys)
		for _, k := range keys {
			if row.All[k].Op != "idle" {
				cs = append(cs, row.All[k])
			}
		}
		configs = append(configs, cs)
	}
	return configs
}

// conc-hammer: eight goroutines call observers in tight loops, for a fixed time, on small shared objects that contain
// one wide list at three different depths (alone, one level down in a message, three levels down in a complete
// message). Every answer is compared with the answer of an untouched twin. This is the schedule a log-everything
// application produces; a memo that is updated in two steps shows here even when every single access is atomic.
func driverConcHammer(c *Ctx) {
	mk := func() (ast.ItemNode, *ast.DataMessage, *ast.DataMessage) {
		var kids []interface{}
		for k := 0; k < 40; k++ {
			kids = append(kids, ast.NewUintNode(1, k))
		}
		kids[17] = ast.NewListNode(ast.NewASCIINode("in"), ast.NewBinaryNode(1, 2))
		wide := ast.NewListNode(kids...)
		m := ast.NewDataMessage("Report", 6, 11, 1, "H<-E", ast.NewListNode(ast.NewASCIINode("report"), wide))
		cm := ast.NewHSMSDataMessage("c", 3, 5, 1, "H<-E", ast.NewListNode(ast.NewListNode(ast.NewListNode(wide))), 77, []byte{9, 8, 7, 6})
		return wide, m, cm
	}
	type call struct {
		op, obj string
		f       func(w ast.ItemNode, m, cm *ast.DataMessage) string
	}
	onObj := func(obj string, item func(ast.ItemNode) string, msg func(*ast.DataMessage) string) func(ast.ItemNode, *ast.DataMessage, *ast.DataMessage) string {
		return func(w ast.ItemNode, m, cm *ast.DataMessage) string {
			switch obj {
			case "template":
				return item(w)
			case "message":
				return msg(m)
			}
			return msg(cm)
		}
	}
	var all []call
	for _, obj := range []string{"template", "message", "complete"} {
		all = append(all,
			call{"String", obj, onObj(obj, func(x ast.ItemNode) string { return fmt.Sprint(x) }, func(x *ast.DataMessage) string { return x.String() })},
			call{"ToBytes", obj, onObj(obj, func(x ast.ItemNode) string { return string(x.ToBytes()) }, func(x *ast.DataMessage) string { return string(x.ToBytes()) })},
			call{"Variables", obj, onObj(obj, func(x ast.ItemNode) string { return strings.Join(x.Variables(), ",") }, func(x *ast.DataMessage) string { return strings.Join(x.Variables(), ",") })},
		)
	}
	groups := map[string][]call{"String": nil, "ToBytes": nil, "Variables": nil, "mixed": all}
	for _, cl := range all {
		groups[cl.op] = append(groups[cl.op], cl)
	}
	// two further groups: (4) the SML parser on texts whose size declarations are written with blanks, line breaks and
	// comments inside the brackets (a different text per goroutine), (5) control messages nothing has looked at yet - a
	// fresh one per round, its first ToBytes() made by all goroutines at once
	hammerExtra(c)
	names := []string{"String", "ToBytes", "Variables", "mixed"}
	for gi, name := range names {
		if !c.want(gi) {
			continue
		}
		calls := groups[name]
		cj := []interface{}{}
		for _, cl := range calls {
			cj = append(cj, J{"op": cl.op, "obj": cl.obj})
		}
		c.emit(gi, J{"ev": "begin", "variant": 0, "calls": cj})
		c.out.Flush()
		w, m, cm := mk()
		tw, tm, tcm := mk() // the twin
		want := make([]string, len(calls))
		for k, cl := range calls {
			want[k] = cl.f(tw, tm, tcm)
		}
		bad := make([]string, len(calls))
		var mu sync.Mutex
		var wg sync.WaitGroup
		deadline := time.Now().Add(time.Duration(c.N) * time.Millisecond)
		const workers = 8
		for g := 0; g < workers; g++ {
			wg.Add(1)
			go func(g int) {
				defer wg.Done()
				for n := 0; ; n++ {
					k := (g + n) % len(calls)
					if name != "mixed" {
						k = g % len(calls) // each goroutine stays with one object: the same node at one depth, over and over
					}
					if got := calls[k].f(w, m, cm); got != want[k] {
						mu.Lock()
						bad[k] = dig(got)
						mu.Unlock()
						return
					}
					if n%64 == 0 && time.Now().After(deadline) {
						return
					}
				}
			}(g)
		}
		wg.Wait()
		solo, got, after := make([]string, len(calls)), make([]string, len(calls)), make([]string, len(calls))
		for k, cl := range calls {
			solo[k] = dig(want[k])
			got[k] = solo[k]
			if bad[k] != "" {
				got[k] = bad[k]
			}
			after[k] = dig(cl.f(w, m, cm))
		}
		c.emit(gi, J{"ev": "conc", "variant": 1, "calls": cj, "solo": solo, "got": got, "after": after, "rounds": 1, "outcome": "returned", "hammer": name})
		c.out.Flush()
		c.count("hammer.groups")
	}
}

func hammerExtra(c *Ctx) {
	const workers = 8
	deadline := func() time.Time { return time.Now().Add(time.Duration(c.N) * time.Millisecond) }
	emit := func(gi int, name string, cj []interface{}, solo, got, after []string) {
		c.emit(gi, J{"ev": "conc", "variant": 1, "calls": cj, "solo": solo, "got": got, "after": after, "rounds": 1, "outcome": "returned", "hammer": name})
		c.out.Flush()
		c.count("hammer.groups")
	}
	if c.want(4) && c.From <= 4 {
		parse := func(text string) string {
			ms, errs, warns := sml.Parse(text)
			var r []string
			for _, m := range ms {
				r = append(r, m.String())
			}
			return dig([]interface{}{r, errs, warns})
		}
		var texts []string
		cj := []interface{}{}
		for k := 0; k < workers; k++ {
			texts = append(texts, fmt.Sprintf("S1F1 W H->E\n<L <A [ %d .. // up to\n %d ] name%d> <U1[ %d ] %s> <L [ %d..\n] <B 1>> <A[%d .. %d] \"%s\">>\n.",
				10+k, 200+3*k, k, k+1, strings.TrimSpace(strings.Repeat("7 ", k+1)), k%2, 1000+k, 50000+k, strings.Repeat("x", 1000+k)))
			cj = append(cj, J{"op": "SmlParse", "obj": "text"})
		}
		c.emit(4, J{"ev": "begin", "variant": 0, "calls": cj})
		c.out.Flush()
		want := make([]string, workers)
		for k, t := range texts {
			want[k] = parse(t)
		}
		bad := make([]string, workers)
		var wg sync.WaitGroup
		dl := deadline()
		for g := 0; g < workers; g++ {
			wg.Add(1)
			go func(g int) {
				defer wg.Done()
				for n := 0; ; n++ {
					if got := parse(texts[g]); got != want[g] {
						bad[g] = got
						return
					}
					if n%16 == 0 && time.Now().After(dl) {
						return
					}
				}
			}(g)
		}
		wg.Wait()
		got, after := make([]string, workers), make([]string, workers)
		for k := range texts {
			got[k] = want[k]
			if bad[k] != "" {
				got[k] = bad[k]
			}
			after[k] = parse(texts[k])
		}
		emit(4, "SmlSizes", cj, want, got, after)
	}
	if c.want(5) && c.From <= 5 {
		kinds := []string{"select.req", "deselect.req", "linktest.req", "separate.req", "select.rsp", "reject.req"}
		cj := []interface{}{}
		for range kinds {
			cj = append(cj, J{"op": "ToBytes", "obj": "control"})
		}
		c.emit(5, J{"ev": "begin", "variant": 0, "calls": cj})
		c.out.Flush()
		mk := func(r int) []ast.HSMSMessage {
			sid := uint16((r * 257) % 65536)
			sys := []byte{byte(r >> 8), byte(r), 7, byte(r * 3)}
			req := ast.NewHSMSMessageSelectReq(sid, sys)
			return []ast.HSMSMessage{req, ast.NewHSMSMessageDeselectReq(sid, sys), ast.NewHSMSMessageLinktestReq(sys),
				ast.NewHSMSMessageSeparateReq(sid, sys), ast.NewHSMSMessageSelectRsp(req, byte(r%4)), ast.NewHSMSMessageRejectReq(sid, 0, 9, sys, byte(1+r%4))}
		}
		obs := func(m ast.HSMSMessage) string { return m.Type() + ":" + string(m.ToBytes()) }
		solo := make([]string, len(kinds))
		got := make([]string, len(kinds))
		after := make([]string, len(kinds))
		for k := range kinds {
			solo[k] = "ok"
			got[k] = "ok"
			after[k] = "ok"
		}
		dl := deadline()
		var mu sync.Mutex
		for r := 0; r < 200000 && time.Now().Before(dl); r++ {
			fresh, twin := mk(r), mk(r)
			start := make(chan struct{})
			var wg sync.WaitGroup
			for g := 0; g < workers; g++ {
				wg.Add(1)
				go func(g int) {
					defer wg.Done()
					<-start
					for j := 0; j < len(kinds); j++ {
						k := (g + j) % len(kinds)
						if obs(fresh[k]) != obs(twin[(k)]) {
							mu.Lock()
							got[k] = "differs"
							mu.Unlock()
						}
					}
				}(g)
			}
			close(start)
			wg.Wait()
			for k := range kinds {
				if obs(fresh[k]) != obs(twin[k]) {
					after[k] = "differs"
				}
			}
		}
		emit(5, "ControlFirstUse", cj, solo, got, after)
	}
}
