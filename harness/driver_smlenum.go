package main

// sml-enum: the SML counterpart of hsms-enum. Every sequence of at most -n words of a small vocabulary, in one of
// three contexts (-arg), is parsed by the real sml.Parse; TLC runs the lexer and parser model on each text and
// checks acceptance, messages and diagnostics (TraceSml). The vocabulary holds one or two words of every token
// class and of every value class that the parser distinguishes, so that each pair and triple of features meets.

import (
	"strconv"
	"strings"
)

func init() { drivers["sml-enum"] = driverSmlEnum }

var smlEnumVocab = []string{
	"<", ">", ".", "L", "A", "B", "BOOLEAN", "U1", "I2", "F4", "[2]", "[1..2]", "[0]",
	"5", "-1", "300", "0x1F", "0b11", "1.5", "1e39", `"ab"`, `""`, "x", "y[1]", "...", "...[3]", "T", "false",
	"S2F2", "S1F0", "W", "H->E", "//c\n", "*",
}

// contexts: where the words go
var smlEnumCtx = map[string][2]string{
	"top":  {"S1F1 W ", ""},          // behind a header: message end, next headers, stray words
	"list": {"S1F1 W <L ", " > ."},   // children of a list
	"item": {"S1F1 W <", "> ."},      // type word, size, values of one item
	"head": {"", " <U1 5> ."},        // header words
	"two":  {"S1F1 W <U1 x> . ", ""}, // behind a complete message
}

var smlEnumSmall = []string{"<", ">", "L", "A", "U1", "F4", "[2]", "5", "300", `"ab"`, "x", "..."}

// -arg: comma-separated ctx:vocabulary:length, e.g. "item:full:2,list:small:4"
func driverSmlEnum(c *Ctx) {
	idx := -1
	for _, spec := range strings.Split(c.Arg, ",") {
		f := strings.Split(spec, ":")
		if len(f) != 3 {
			panic("sml-enum: -arg must be ctx:vocabulary:length[,...]")
		}
		ctx, ok := smlEnumCtx[f[0]]
		if !ok {
			panic("sml-enum: unknown context " + f[0])
		}
		v := smlEnumVocab
		if f[1] == "small" {
			v = smlEnumSmall
		}
		maxLen, _ := strconv.Atoi(f[2])
		var rec func(words []string, depth int)
		rec = func(words []string, depth int) {
			idx++
			if c.want(idx) {
				text := ctx[0] + strings.Join(words, " ") + ctx[1]
				ev := parseEvent(text)
				ev["ev"] = "parse"
				ev["how"] = "enum-" + f[0]
				c.emit(idx, ev)
				c.count("smlenum." + ev["outcome"].(string))
				if len(ev["msgs"].([]interface{})) > 0 {
					c.count("smlenum.accepted")
				}
			}
			if depth == maxLen {
				return
			}
			for _, w := range v {
				rec(append(words[:len(words):len(words)], w), depth+1)
			}
		}
		rec(nil, 0)
	}
}
