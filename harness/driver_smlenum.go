package main

// sml-enum: the SML counterpart of hsms-enum. Every sequence of at most -n words of a small vocabulary, in one of
// three contexts (-arg), is parsed by the real sml.Parse; TLC runs the lexer and parser model on each text and
// checks acceptance, messages and diagnostics (TraceSml). The vocabulary holds one or two words of every token
// class and of every value class that the parser distinguishes, so that each pair and triple of features meets.

import (
	"crypto/sha1"
	"encoding/hex"
	"encoding/json"
	"strconv"
	"strings"
	"sync"

	"github.com/wolimst/lib-secs2-hsms-go/pkg/ast"
	"github.com/wolimst/lib-secs2-hsms-go/pkg/parser/sml"
)

func init() {
	drivers["sml-enum"] = driverSmlEnum
	drivers["layout-enum"] = driverLayoutEnum
	drivers["cp-sweep"] = driverCpSweep
}

var smlEnumVocab = []string{
	"<", ">", ".", "L", "A", "B", "BOOLEAN", "U1", "I2", "F4", "[2]", "[1..2]", "[0]",
	"5", "-1", "300", "0x1F", "0b11", "1.5", "1e39", `"ab"`, `""`, "x", "y[1]", "...", "...[3]", "T", "false",
	"S2F2", "S1F0", "W", "H->E", "//c\n", "*",
	".\u0663", "e.\u0663", "\uff15", // a non-ASCII digit behind a dot, behind a name ending in e and a dot, alone
	"[1\n]", // a size declaration over two lines
}

// contexts: where the words go
var smlEnumCtx = map[string][2]string{
	"top":  {"S1F1 W ", ""},           // behind a header: message end, next headers, stray words
	"list": {"S1F1 W <L ", " > ."},    // children of a list
	"item": {"S1F1 W <", "> ."},       // type word, size, values of one item
	"head": {"", " <U1 5> ."},         // header words
	"two":  {"S1F1 W <U1 x> . ", ""},  // behind a complete message
	"open": {"S1F1 W <L <U1 x> ", ""}, // inside a list that the text never closes, behind an item with a variable
}

var smlEnumSmall = []string{"<", ">", "L", "A", "U1", "F4", "[2]", "5", "300", `"ab"`, "x", "...", "[1\n]"}

// -arg: comma-separated ctx:vocabulary:length, e.g. "item:full:2,list:small:4"
func driverSmlEnum(c *Ctx) {
	idx := -1
	for _, spec := range strings.Split(c.Arg, ",") {
		f := strings.Split(spec, ":")
		if len(f) != 3 {
			panic("sml-enum: -arg must be ctx:vocabulary:length[,...]")
		}
		ctx, ok := smlEnumCtx[f[0]]
		if !ok {
			panic("sml-enum: unknown context " + f[0])
		}
		v := smlEnumVocab
		if f[1] == "small" {
			v = smlEnumSmall
		}
		maxLen, _ := strconv.Atoi(f[2])
		var rec func(words []string, depth int)
		rec = func(words []string, depth int) {
			idx++
			if c.want(idx) {
				text := ctx[0] + strings.Join(words, " ") + ctx[1]
				ev := parseEvent(text)
				ev["ev"] = "parse"
				ev["how"] = "enum-" + f[0]
				c.emit(idx, ev)
				c.count("smlenum." + ev["outcome"].(string))
				if len(ev["msgs"].([]interface{})) > 0 {
					c.count("smlenum.accepted")
				}
			}
			if depth == maxLen {
				return
			}
			for _, w := range v {
				rec(append(words[:len(words):len(words)], w), depth+1)
			}
		}
		rec(nil, 0)
	}
}

// layout-enum: the systematic counterpart of the layout driver. For a set of token lists - fixed ones that hold every
// kind of adjacent token pair, and -n seeded ones - every single gap in turn gets every separator (the other gaps
// keep one blank), and every token in turn gets its letter case flipped where SML is case-insensitive.
var layoutEnumBases = [][]string{
	{"S1F1", "W", "H->E", "n1", "<", "L", "[", "2", "]", "<", "U1", "[", "1", "..", "2", "]", "5", "0x1F", ">", "<", "A", "[", "0", "..", "5", "]", `"ab"`, "0x41", ">", ">", "."},
	{"S2F3", "H<-E", "<", "L", "x", "<", "B", "0b1", "7", ">", "...", "<", "BOOLEAN", "T", "false", ">", "y[1]", ">", ".", "S6F11", "[W]", "<", "F4", "1.5", "-1e3", "v", ">", "."},
	{"S1F1", "<", "I2", "[", "3", "]", "-1", "2", "k", ">", ".", "S2F2", "W", "E->H", "<", "U1", "300", ">", "."},
	{"S1F1", "W", "<", "L", "...", ">", ".", "S1F3", "<", "A", "[", "1", "]", `"abc"`, ">", "."},
	{"S127F255", "W", "H<->E", "<", "L", "<", "L", "<", "L", ">", ">", "<", "F8", "1e400", ">", ">", "S1F2", "<", "BOOLEAN", "[", "..", "1", "]", "T", "T", ">", "."},
	{"S1F1", "W", "<", "A", "[", "1", "..", "]", "str", ">", ".", "S1F1", "<", "U2", "a", "...", ">", "."},
	{"S1F1", "W", "H->E", "Lot/Wafer", "<", "U1", "5", ">", ".", "S5F1", "a/b/", ".", "S5F3", "/x", "<", "L", ">", ".", "S5F5", "W", "x/y/z", "."},
}
var layoutEnumBroken = [][]string{
	{"S1F1", "<", "L", ">", "s2f2", "."},
	{"S1F1", "W", "<", "L", ">", "foo.", "<", "L", ">", "."},
	{"S1F1", "<", "U1", "1", ">", `"y z"`, "."},
	{"S1F1", "<", "L", ">", ".5", "."},
	{"S1F1", "<", "L", ">", "h->e", "W", "."},
	{"S1F1", "<", "L", "<", "L", ">", "s2f2", ">", "."},
}
var layoutEnumSeps = []string{"", "  ", "\t", "\n", "\r\n", "\r", " \n\t ", " //c\n", "//c\r\n", " // é <L \"\n", "\n\n// . S9F9\n", "\v",
	"\u00a0", "\u2003\u2003", " \u0085"} // white space of two and three bytes (the header skips it, the message text does not)

func driverLayoutEnum(c *Ctx) {
	bases := append([][]string{}, layoutEnumBases...)
	for k := 0; k < c.N; k++ {
		bases = append(bases, c.gen(k).lexemes())
	}
	idx := -1
	one := func(t1, t2, family string) {
		idx++
		if c.want(idx) {
			c.emit(idx, J{"ev": "layout", "family": family, "r1": parseEvent(t1), "r2": parseEvent(t2)})
			c.count("layoutenum." + family)
		}
	}
	// a message name ending in (or holding) each printable ASCII character, with a comment attached directly behind it
	for ch := 33; ch < 127; ch++ {
		for _, name := range []string{"N" + string(rune(ch)), "N" + string(rune(ch)) + "x", "Nm" + string(rune(ch)) + string(rune(ch))} {
			for _, tail := range []string{"\n<U1 5> .", "\n."} {
				one("S1F1 W H->E "+name+tail, "S1F1 W H->E "+name+"//c d <L>"+tail, "name-comment")
			}
		}
	}
	// texts that are wrong in one place - the terminator is missing behind the item - with a next token that the header
	// scanner and the text scanner read differently: every gap gets every separator, the diagnostics must stay what they are
	for _, toks := range layoutEnumBroken {
		t1 := strings.Join(toks, " ")
		for gap := 1; gap <= len(toks); gap++ {
			for _, sep := range layoutEnumSeps {
				if sep == "" {
					continue
				}
				var sb strings.Builder
				for i, t := range toks {
					if i == gap {
						sb.WriteString(sep)
					} else if i > 0 {
						sb.WriteString(" ")
					}
					sb.WriteString(t)
				}
				if gap == len(toks) {
					sb.WriteString(sep)
				}
				one(t1, sb.String(), "broken-gap")
			}
		}
	}
	for _, toks := range bases {
		t1 := strings.Join(toks, " ")
		for gap := 0; gap <= len(toks); gap++ {
			for _, sep := range layoutEnumSeps {
				var sb strings.Builder
				for i, t := range toks {
					if i == gap {
						sb.WriteString(sep)
					} else if i > 0 {
						sb.WriteString(" ")
					}
					sb.WriteString(t)
				}
				if gap == len(toks) {
					sb.WriteString(sep)
				}
				one(t1, sb.String(), "single-gap")
			}
		}
		inHeader := true
		for i, t := range toks {
			if caseFlippable(t, inHeader) {
				for _, f := range []string{strings.ToUpper(t), strings.ToLower(t)} {
					if f != t {
						t2 := strings.Join(append(append(append([]string{}, toks[:i]...), f), toks[i+1:]...), " ")
						one(t1, t2, "single-case")
					}
				}
			}
			if t == "<" {
				inHeader = false
			}
			if t == "." {
				inHeader = true
			}
		}
	}
}

// cp-sweep: every Unicode code point from U+0080 up, placed inside a literal in four contexts. The real parser's
// outcome class (error and nothing returned / accepted with which values) is recorded as maximal intervals of code
// points on which it is constant; for each interval the texts at both ends and in the middle are recorded as ordinary
// parse events, which TLC judges against the parser model. Inside a quoted string every such character is an error.
var cpContexts = []struct{ name, pre, post string }{
	{"string", `S1F1 <A "ab`, `cd"> .`},
	{"number", `S1F1 <U2 12`, `34> .`},
	{"code", `S1F1 <A 0x4`, `1> .`},
	{"bool", `S1F1 <BOOLEAN T`, ` F> .`},
	{"float", `S1F1 <F8 1.`, `5> .`},
}

func cpClass(text string) string {
	var msgs []*ast.DataMessage
	var errs []string
	if p, _ := try(func() { msgs, errs, _ = sml.Parse(text) }); p {
		return "panic"
	}
	if len(errs) > 0 {
		if len(msgs) > 0 {
			return "both"
		}
		return "error"
	}
	b, _ := json.Marshal(projMsgs(msgs))
	h := sha1.Sum(b)
	return "accepted:" + hex.EncodeToString(h[:6])
}

func driverCpSweep(c *Ctx) {
	const first, last = 0x80, 0x10FFFF
	// quick: every code point of the basic plane, every 61st beyond it (and the last); thorough: every code point
	var pts []int
	for cp := first; cp <= last; cp++ {
		if c.Tier == "thorough" || cp <= 0xFFFF || cp%61 == 0 || cp == last {
			pts = append(pts, cp)
		}
	}
	idx := -1
	for _, cx := range cpContexts {
		classes := make([]string, len(pts))
		var wg sync.WaitGroup
		const workers = 16
		for w := 0; w < workers; w++ {
			wg.Add(1)
			go func(w int) {
				defer wg.Done()
				for k := w; k < len(pts); k += workers {
					classes[k] = cpClass(cx.pre + string(rune(pts[k])) + cx.post)
				}
			}(w)
		}
		wg.Wait()
		start, prevb := 0, first-1
		for k := 0; k <= len(pts); k++ {
			if k < len(pts) && classes[k] == classes[start] {
				continue
			}
			idx++
			a, b := pts[start], pts[k-1]
			if c.want(idx) {
				cls := classes[start]
				if strings.HasPrefix(cls, "accepted") {
					cls = "accepted"
				}
				c.emit(idx, J{"ev": "cpivl", "ctx": cx.name, "a": a, "b": b, "prevb": prevb, "class": cls, "final": b == last,
					"points": k - start})
				for _, p := range []int{a, pts[(start+k-1)/2], b} {
					ev := parseEvent(cx.pre + string(rune(p)) + cx.post)
					ev["ev"] = "parse"
					ev["how"] = "cp-" + cx.name
					c.emit(idx, ev)
					if p == b {
						break
					}
				}
				c.count("cpsweep.intervals")
			}
			prevb = b
			start = k
		}
	}
}
