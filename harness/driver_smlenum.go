package main

// sml-enum: the SML counterpart of hsms-enum. Every sequence of at most -n words of a small vocabulary, in one of
// three contexts (-arg), is parsed by the real sml.Parse; TLC runs the lexer and parser model on each text and
// checks acceptance, messages and diagnostics (TraceSml). The vocabulary holds one or two words of every token
// class and of every value class that the parser distinguishes, so that each pair and triple of features meets.

import (
	"strconv"
	"strings"
)

func init() {
	drivers["sml-enum"] = driverSmlEnum
	drivers["layout-enum"] = driverLayoutEnum
}

var smlEnumVocab = []string{
	"<", ">", ".", "L", "A", "B", "BOOLEAN", "U1", "I2", "F4", "[2]", "[1..2]", "[0]",
	"5", "-1", "300", "0x1F", "0b11", "1.5", "1e39", `"ab"`, `""`, "x", "y[1]", "...", "...[3]", "T", "false",
	"S2F2", "S1F0", "W", "H->E", "//c\n", "*",
	".\u0663", "e.\u0663", "\uff15", // a non-ASCII digit behind a dot, behind a name ending in e and a dot, alone
}

// contexts: where the words go
var smlEnumCtx = map[string][2]string{
	"top":  {"S1F1 W ", ""},          // behind a header: message end, next headers, stray words
	"list": {"S1F1 W <L ", " > ."},   // children of a list
	"item": {"S1F1 W <", "> ."},      // type word, size, values of one item
	"head": {"", " <U1 5> ."},        // header words
	"two":  {"S1F1 W <U1 x> . ", ""}, // behind a complete message
}

var smlEnumSmall = []string{"<", ">", "L", "A", "U1", "F4", "[2]", "5", "300", `"ab"`, "x", "..."}

// -arg: comma-separated ctx:vocabulary:length, e.g. "item:full:2,list:small:4"
func driverSmlEnum(c *Ctx) {
	idx := -1
	for _, spec := range strings.Split(c.Arg, ",") {
		f := strings.Split(spec, ":")
		if len(f) != 3 {
			panic("sml-enum: -arg must be ctx:vocabulary:length[,...]")
		}
		ctx, ok := smlEnumCtx[f[0]]
		if !ok {
			panic("sml-enum: unknown context " + f[0])
		}
		v := smlEnumVocab
		if f[1] == "small" {
			v = smlEnumSmall
		}
		maxLen, _ := strconv.Atoi(f[2])
		var rec func(words []string, depth int)
		rec = func(words []string, depth int) {
			idx++
			if c.want(idx) {
				text := ctx[0] + strings.Join(words, " ") + ctx[1]
				ev := parseEvent(text)
				ev["ev"] = "parse"
				ev["how"] = "enum-" + f[0]
				c.emit(idx, ev)
				c.count("smlenum." + ev["outcome"].(string))
				if len(ev["msgs"].([]interface{})) > 0 {
					c.count("smlenum.accepted")
				}
			}
			if depth == maxLen {
				return
			}
			for _, w := range v {
				rec(append(words[:len(words):len(words)], w), depth+1)
			}
		}
		rec(nil, 0)
	}
}

// layout-enum: the systematic counterpart of the layout driver. For a set of token lists - fixed ones that hold every
// kind of adjacent token pair, and -n seeded ones - every single gap in turn gets every separator (the other gaps
// keep one blank), and every token in turn gets its letter case flipped where SML is case-insensitive.
var layoutEnumBases = [][]string{
	{"S1F1", "W", "H->E", "n1", "<", "L", "[", "2", "]", "<", "U1", "[", "1", "..", "2", "]", "5", "0x1F", ">", "<", "A", "[", "0", "..", "5", "]", `"ab"`, "0x41", ">", ">", "."},
	{"S2F3", "H<-E", "<", "L", "x", "<", "B", "0b1", "7", ">", "...", "<", "BOOLEAN", "T", "false", ">", "y[1]", ">", ".", "S6F11", "[W]", "<", "F4", "1.5", "-1e3", "v", ">", "."},
	{"S1F1", "<", "I2", "[", "3", "]", "-1", "2", "k", ">", ".", "S2F2", "W", "E->H", "<", "U1", "300", ">", "."},
	{"S1F1", "W", "<", "L", "...", ">", ".", "S1F3", "<", "A", "[", "1", "]", `"abc"`, ">", "."},
	{"S127F255", "W", "H<->E", "<", "L", "<", "L", "<", "L", ">", ">", "<", "F8", "1e400", ">", ">", "S1F2", "<", "BOOLEAN", "[", "..", "1", "]", "T", "T", ">", "."},
	{"S1F1", "W", "<", "A", "[", "1", "..", "]", "str", ">", ".", "S1F1", "<", "U2", "a", "...", ">", "."},
}
var layoutEnumSeps = []string{"", "  ", "\t", "\n", "\r\n", "\r", " \n\t ", " //c\n", "//c\r\n", " // é <L \"\n", "\n\n// . S9F9\n", "\v", " "}

func driverLayoutEnum(c *Ctx) {
	bases := append([][]string{}, layoutEnumBases...)
	for k := 0; k < c.N; k++ {
		bases = append(bases, c.gen(k).lexemes())
	}
	idx := -1
	one := func(t1, t2, family string) {
		idx++
		if c.want(idx) {
			c.emit(idx, J{"ev": "layout", "family": family, "r1": parseEvent(t1), "r2": parseEvent(t2)})
			c.count("layoutenum." + family)
		}
	}
	for _, toks := range bases {
		t1 := strings.Join(toks, " ")
		for gap := 0; gap <= len(toks); gap++ {
			for _, sep := range layoutEnumSeps {
				var sb strings.Builder
				for i, t := range toks {
					if i == gap {
						sb.WriteString(sep)
					} else if i > 0 {
						sb.WriteString(" ")
					}
					sb.WriteString(t)
				}
				if gap == len(toks) {
					sb.WriteString(sep)
				}
				one(t1, sb.String(), "single-gap")
			}
		}
		inHeader := true
		for i, t := range toks {
			if caseFlippable(t, inHeader) {
				for _, f := range []string{strings.ToUpper(t), strings.ToLower(t)} {
					if f != t {
						t2 := strings.Join(append(append(append([]string{}, toks[:i]...), f), toks[i+1:]...), " ")
						one(t1, t2, "single-case")
					}
				}
			}
			if t == "<" {
				inHeader = false
			}
			if t == "." {
				inHeader = true
			}
		}
	}
}
