package main

// Seeded generators of item trees and messages.  A GItem is the harness' own description of what it
// asks the factories to build; it is also what C12 compares the stored values with.

import (
	"fmt"
	"math"
	"math/rand"
	"strings"

	"github.com/wolimst/lib-secs2-hsms-go/pkg/ast"
)

type GItem struct {
	F      string        // "L", "A", "B", "BOOLEAN", "I1".."I8", "U1".."U8", "F4", "F8"; "" = list-level variable
	Kids   []*GItem      // L
	Var    string        // list-level variable or ellipsis name (F == ""), ASCII variable name (F == "A" && IsVar)
	IsVar  bool          // A: variable
	Lo, Hi int           // A variable bounds
	Str    string        // A literal
	Vals   []interface{} // array formats: Go values, or string = variable name
}

var arrayFormats = []string{"B", "BOOLEAN", "I1", "I2", "I4", "I8", "U1", "U2", "U4", "U8", "F4", "F8"}
var allFormats = append([]string{"L", "A"}, arrayFormats...)

func fmtSize(f string) int { return int(f[1] - '0') }

// Build constructs the item through the public factories. Panics of the factories propagate.
func (g *GItem) Build() ast.ItemNode {
	switch g.F {
	case "L":
		vals := make([]interface{}, len(g.Kids))
		for i, k := range g.Kids {
			if k.F == "" {
				vals[i] = k.Var
			} else {
				vals[i] = k.Build()
			}
		}
		return ast.NewListNode(vals...)
	case "A":
		if g.IsVar {
			return ast.NewASCIINodeVariable(g.Var, g.Lo, g.Hi)
		}
		return ast.NewASCIINode(g.Str)
	case "B":
		return ast.NewBinaryNode(g.Vals...)
	case "BOOLEAN":
		return ast.NewBooleanNode(g.Vals...)
	}
	switch g.F[0] {
	case 'I':
		return ast.NewIntNode(fmtSize(g.F), g.Vals...)
	case 'U':
		return ast.NewUintNode(fmtSize(g.F), g.Vals...)
	case 'F':
		return ast.NewFloatNode(fmtSize(g.F), g.Vals...)
	}
	panic("harness: bad GItem format " + g.F)
}

// Vars lists the variable names of the description in printed order.
func (g *GItem) VarNames() []string {
	var r []string
	switch {
	case g.F == "":
		r = append(r, g.Var)
	case g.F == "L":
		for _, k := range g.Kids {
			r = append(r, k.VarNames()...)
		}
	case g.F == "A":
		if g.IsVar {
			r = append(r, g.Var)
		}
	default:
		for _, v := range g.Vals {
			if s, ok := v.(string); ok && !(g.F == "B" && len(s) >= 2 && s[:2] == "0b") {
				r = append(r, s)
			}
		}
	}
	return r
}

type Gen struct {
	r        *rand.Rand
	varSeq   int
	MaxKids  int
	MaxVals  int
	NoDigits bool // ASCII literals without digits
	Ladder   int  // > 0: one size in Ladder (values of an item, characters of a string, children of a list) sits next to a
	LadderTo int  // power of two up to LadderTo - the thresholds of fast paths, pools, caches and small-size optimisations
	Wordy    bool // some variable names are words like "true" / "False" (names, not literals)
	Indexed  bool // some variable names are an earlier name with an index behind it ("v1[0]"): the shape generated names have
	names    []string
}

func NewGen(seed int64) *Gen { return &Gen{r: rand.New(rand.NewSource(seed)), MaxKids: 4, MaxVals: 5} }

func (g *Gen) pick(n int) int { return g.r.Intn(n) }

func (g *Gen) intVal(size int) int64 {
	bits := uint(size * 8)
	min := int64(-1) << (bits - 1)
	max := int64(1)<<(bits-1) - 1
	switch g.pick(10) {
	case 0:
		return min
	case 1:
		return max
	case 2:
		return min + 1
	case 3:
		return max - 1
	case 4:
		return 0
	case 5:
		return -1
	case 6:
		return 1
	default:
		v := int64(g.r.Uint64())
		if size < 8 {
			v = v >> (64 - bits) // arithmetic shift keeps the sign
		}
		return v
	}
}

func (g *Gen) uintVal(size int) uint64 {
	bits := uint(size * 8)
	max := uint64(math.MaxUint64)
	if size < 8 {
		max = uint64(1)<<bits - 1
	}
	switch g.pick(8) {
	case 0:
		return 0
	case 1:
		return max
	case 2:
		return max - 1
	case 3:
		return 1
	case 4:
		return max/2 + 1 // sign bit only
	default:
		return g.r.Uint64() & max
	}
}

func (g *Gen) floatVal(size int) float64 {
	if size == 4 {
		for {
			var b uint32
			switch g.pick(10) {
			case 0:
				b = 0
			case 1:
				b = 0x80000000
			case 2:
				b = 0x7F7FFFFF // max
			case 3:
				b = 0xFF7FFFFF
			case 4:
				b = 1 // smallest subnormal
			case 5:
				b = 0x3F800000
			case 6:
				b = uint32(g.pick(1<<23)) | uint32(g.pick(2))<<31 // subnormals
			default:
				b = g.r.Uint32()
			}
			v := float64(math.Float32frombits(b))
			if !math.IsInf(v, 0) && !math.IsNaN(v) {
				return v
			}
		}
	}
	for {
		var b uint64
		switch g.pick(10) {
		case 0:
			b = 0
		case 1:
			b = 1 << 63
		case 2:
			b = 0x7FEFFFFFFFFFFFFF
		case 3:
			b = 0xFFEFFFFFFFFFFFFF
		case 4:
			b = 1
		case 5:
			b = math.Float64bits(0.1)
		case 6:
			b = math.Float64bits(float64(g.r.Int63n(1 << 30)))
		default:
			b = g.r.Uint64()
		}
		v := math.Float64frombits(b)
		if !math.IsInf(v, 0) && !math.IsNaN(v) {
			return v
		}
	}
}

var ladderSizes = []int{15, 16, 17, 31, 32, 33, 63, 64, 65, 127, 128, 129, 255, 256, 257, 511, 512, 513, 1023, 1024, 1025, 2047, 2048, 2049, 4095, 4096, 4097}

// size returns the ordinary size pick(ordinary+1), or - one time in Ladder - a size next to a power of two.
func (g *Gen) size(ordinary int) int {
	if g.Ladder > 0 && g.pick(g.Ladder) == 0 {
		var fit []int
		for _, n := range ladderSizes {
			if n <= g.LadderTo {
				fit = append(fit, n)
			}
		}
		if len(fit) > 0 {
			return fit[g.pick(len(fit))]
		}
	}
	return g.pick(ordinary + 1)
}

// an ASCII string over all 128 codes, biased towards the characters the printer and lexer treat specially
func (g *Gen) asciiStr(maxLen int) string {
	n := g.size(maxLen)
	b := make([]byte, n)
	if g.NoDigits {
		// (C16 looks for variable names among the words of the printed form; all generated names end in a digit)
		for i := range b {
			for {
				b[i] = byte(g.pick(128))
				if b[i] < '0' || b[i] > '9' {
					break
				}
			}
		}
		return string(b)
	}
	special := []byte{0, 9, 10, 13, 31, 32, 34, 37, 47, 60, 62, 92, 92, 126, 127, '.', '[', ']', 'a', 'Z', '0'}
	for i := range b {
		if g.pick(3) == 0 {
			b[i] = special[g.pick(len(special))]
		} else {
			b[i] = byte(g.pick(128))
		}
	}
	return string(b)
}

func (g *Gen) newVar() string {
	if g.Wordy && g.pick(5) == 0 {
		// names that look like reserved words of SML but are not: the words for boolean values spelled out
		for _, cand := range []string{"true", "False", "TRUE", "fAlSe", "tRUE", "FALSE", "True", "false"} {
			fresh := true
			for _, n := range g.names {
				if strings.EqualFold(n, cand) {
					fresh = false
				}
			}
			if fresh && g.pick(2) == 0 {
				g.names = append(g.names, cand)
				return cand
			}
		}
	}
	if g.Indexed && g.pick(8) == 0 {
		// an indexed name whose base is no variable of its own
		g.varSeq++
		n := fmt.Sprintf("slot%d[%d]", g.varSeq, g.pick(3))
		g.names = append(g.names, n)
		return n
	}
	if g.Indexed && len(g.names) > 0 && g.pick(4) == 0 {
		cand := fmt.Sprintf("%s[%d]", g.names[g.pick(len(g.names))], g.pick(3))
		fresh := true
		for _, n := range g.names {
			if n == cand {
				fresh = false
			}
		}
		if fresh {
			g.names = append(g.names, cand)
			return cand
		}
	}
	g.varSeq++
	bases := []string{"v", "x_", "Name", "_q", "t", "fv", "l", "b", "a1"}
	n := fmt.Sprintf("%s%d", bases[g.pick(len(bases))], g.varSeq)
	g.names = append(g.names, n)
	return n
}

// leaf returns a random non-list item; with vars=true some values are variables
func (g *Gen) leaf(vars bool) *GItem {
	f := allFormats[1+g.pick(len(allFormats)-1)]
	if g.pick(6) == 0 {
		f = "A"
	}
	if f == "A" {
		if vars && g.pick(3) == 0 {
			it := &GItem{F: "A", IsVar: true, Var: g.newVar(), Lo: 0, Hi: -1}
			switch g.pick(4) {
			case 1:
				it.Lo, it.Hi = g.pick(4), -1
			case 2:
				it.Lo = g.pick(4)
				it.Hi = it.Lo + g.pick(4)
			case 3:
				it.Lo = g.pick(4)
				it.Hi = it.Lo
			}
			return it
		}
		return &GItem{F: "A", Str: g.asciiStr(8)}
	}
	n := g.size(g.MaxVals)
	it := &GItem{F: f}
	// one item in eight is uniform: all its values come from a palette of one or two values (all zero, zero and
	// negative zero, all maximal ...) - what a fast path for "trivial" arrays would look at
	var palette []interface{}
	if g.pick(8) == 0 {
		palette = append(palette, g.special(f))
		if g.pick(2) == 0 {
			palette = append(palette, g.special(f))
		}
	}
	for i := 0; i < n; i++ {
		if vars && g.pick(4) == 0 && palette == nil {
			it.Vals = append(it.Vals, g.newVar())
			continue
		}
		if palette != nil {
			it.Vals = append(it.Vals, palette[g.pick(len(palette))])
			continue
		}
		it.Vals = append(it.Vals, g.value(f))
	}
	return it
}

// special returns one of the few values of a format that code likes to treat specially.
func (g *Gen) special(f string) interface{} {
	switch f {
	case "B":
		return []int{0, 255, 1}[g.pick(3)]
	case "BOOLEAN":
		return g.pick(2) == 1
	}
	w := fmtSize(f)
	switch f[0] {
	case 'I':
		return []int64{0, -1, 1, -1 << (uint(w)*8 - 1), 1<<(uint(w)*8-1) - 1}[g.pick(5)]
	case 'U':
		return []uint64{0, 1, 1<<(uint(w)*8-1)<<1 - 1}[g.pick(3)]
	}
	if w == 4 {
		return []float64{0, math.Copysign(0, -1), 1, float64(math.MaxFloat32), -float64(math.MaxFloat32), float64(math.SmallestNonzeroFloat32)}[g.pick(6)]
	}
	return []float64{0, math.Copysign(0, -1), 1, math.MaxFloat64, -math.MaxFloat64, math.SmallestNonzeroFloat64}[g.pick(6)]
}

// value returns a random in-domain Go value for an array format
func (g *Gen) value(f string) interface{} {
	switch f {
	case "B":
		switch g.pick(4) {
		case 0:
			return 0
		case 1:
			return 255
		default:
			return g.pick(256)
		}
	case "BOOLEAN":
		return g.pick(2) == 1
	}
	switch f[0] {
	case 'I':
		return g.intVal(fmtSize(f))
	case 'U':
		return g.uintVal(fmtSize(f))
	}
	return g.floatVal(fmtSize(f))
}

// tree returns a random item tree of at most the given depth; lists may contain list-level variables
func (g *Gen) tree(depth int, vars bool) *GItem {
	if depth == 0 || g.pick(3) == 0 {
		return g.leaf(vars)
	}
	n := g.size(g.MaxKids)
	it := &GItem{F: "L"}
	if n > g.MaxKids {
		// a long list: small children, and no further long lists or long items below it
		saved := g.Ladder
		g.Ladder = 0
		for i := 0; i < n; i++ {
			if vars && g.pick(6) == 0 {
				it.Kids = append(it.Kids, &GItem{F: "", Var: g.newVar()})
			} else {
				it.Kids = append(it.Kids, g.tree(0, vars))
			}
		}
		g.Ladder = saved
		return it
	}
	for i := 0; i < n; i++ {
		if vars && g.pick(6) == 0 {
			it.Kids = append(it.Kids, &GItem{F: "", Var: g.newVar()})
		} else {
			it.Kids = append(it.Kids, g.tree(depth-1, vars))
		}
	}
	return it
}

type GMsg struct {
	Name    string
	S, F, W int
	Dir     string
	Item    *GItem // nil = no item
	Sid     int
	Sys     []byte
}

var dirs = []string{"H->E", "H<-E", "H<->E"}

func (g *Gen) header(complete bool) *GMsg {
	m := &GMsg{Dir: dirs[g.pick(3)]}
	switch g.pick(4) {
	case 0:
		m.S = []int{0, 1, 127}[g.pick(3)]
	default:
		m.S = g.pick(128)
	}
	switch g.pick(4) {
	case 0:
		m.F = []int{0, 1, 254, 255}[g.pick(4)]
	default:
		m.F = g.pick(256)
	}
	m.W = g.pick(3)
	if complete && m.W == 2 {
		m.W = g.pick(2)
	}
	if m.W == 1 && m.F%2 == 0 {
		m.W = 0
	}
	names := []string{"", "a", "x.", "a<b", "S1F1", "[w", "name", "a/b", "W", "H->E", "<", ".", "\"q\"", "é", "日本"}
	m.Name = names[g.pick(len(names))]
	switch g.pick(4) {
	case 0:
		m.Sid = []int{0, 1, 65535, 256, 255}[g.pick(5)]
	default:
		m.Sid = g.pick(65536)
	}
	m.Sys = make([]byte, 4)
	switch g.pick(4) {
	case 0:
		copy(m.Sys, []byte{0, 0, 0, 0})
	case 1:
		copy(m.Sys, []byte{255, 255, 255, 255})
	default:
		g.r.Read(m.Sys)
	}
	return m
}

// fillValues chooses a fill-in value for every (non-ellipsis) variable of the template. If direct is
// non-nil it receives, per variable, the description of the value (for building the item directly).
func (g *Gen) fillValues(t *GItem, direct map[string]*GItem) map[string]interface{} {
	r := map[string]interface{}{}
	var walk func(t *GItem)
	walk = func(t *GItem) {
		switch {
		case t.F == "":
			if ellRe.MatchString(t.Var) {
				return
			}
			v := g.tree(1, false)
			r[t.Var] = v.Build()
			if direct != nil {
				direct[t.Var] = v
			}
		case t.F == "L":
			for _, k := range t.Kids {
				walk(k)
			}
		case t.F == "A":
			if t.IsVar {
				n := t.Lo + g.pick(4)
				if t.Hi != -1 && n > t.Hi {
					n = t.Hi
				}
				b := make([]byte, n)
				for i := range b {
					b[i] = byte(g.pick(128))
				}
				r[t.Var] = string(b)
				if direct != nil {
					direct[t.Var] = &GItem{F: "A", Str: string(b)}
				}
			}
		default:
			for _, v := range t.Vals {
				if s, ok := v.(string); ok {
					val := g.value(t.F)
					r[s] = val
					if direct != nil {
						direct[s] = &GItem{F: t.F, Vals: []interface{}{val}}
					}
				}
			}
		}
	}
	walk(t)
	return r
}
