package main

// Drivers for the item algebra: observers (C16), fill = substitution (C09), constructors (C12).

import (
	"encoding/json"
	"fmt"
	"math"
	"math/big"
	"regexp"
	"strconv"
	"strings"
	"unicode"

	"github.com/wolimst/lib-secs2-hsms-go/pkg/ast"
)

func init() {
	drivers["snap"] = driverSnap
	drivers["fill"] = driverFill
	drivers["fillself"] = driverFillSelf
	drivers["fillell"] = driverFillEll
	drivers["ctor"] = driverCtor
}

func namesJ(v []string) []interface{} {
	r := make([]interface{}, len(v))
	for i, s := range v {
		r[i] = chars(s)
	}
	return r
}

// observe records all four observers of an item next to its representation-level projection.
func observe(it ast.ItemNode) J {
	v := it.Variables()
	vj := namesJ(v)
	scribbleNames(v) // what an observer hands out is the caller's to change
	b := it.ToBytes()
	bj := bytesJ(b)
	scribbleBytes(b)
	ev := J{"abs": projItem(it), "string": chars(fmt.Sprint(it)), "bytes": bj, "bytes2": bytesJ(it.ToBytes()),
		"vars": vj, "vars2": namesJ(it.Variables()), "size": it.Size(), "hasfisl": false}
	if a, ok := it.(*ast.ASCIINode); ok {
		lo, hi := a.FillInStringLength()
		ev["hasfisl"], ev["fisl"] = true, J{"lo": boundJ(lo), "hi": boundJ(hi)}
	}
	return ev
}

func observeMsg(m *ast.DataMessage) J {
	v := m.Variables()
	vj := namesJ(v)
	scribbleNames(v)
	b := m.ToBytes()
	bj := bytesJ(b)
	scribbleBytes(b)
	return J{"abs": projMsg(m), "string": textChars(m.String()), "bytes": bj, "bytes2": bytesJ(m.ToBytes()),
		"vars": vj, "vars2": namesJ(m.Variables()), "header": textChars(m.Header())}
}

// treeEll is tree() with ellipses: a list with at least one item may get one ellipsis after its first item.
func (g *Gen) treeEll(depth int, ellSeq *int) *GItem {
	if depth == 0 || g.pick(3) == 0 {
		return g.leaf(true)
	}
	n := g.pick(g.MaxKids + 1)
	it := &GItem{F: "L"}
	for i := 0; i < n; i++ {
		if g.pick(6) == 0 {
			it.Kids = append(it.Kids, &GItem{F: "", Var: g.newVar()})
		} else {
			it.Kids = append(it.Kids, g.treeEll(depth-1, ellSeq))
		}
	}
	if n > 0 && g.pick(3) == 0 {
		pos := 1 + g.pick(n)
		name := fmt.Sprintf("...[%d]", *ellSeq)
		*ellSeq++
		kids := append([]*GItem{}, it.Kids[:pos]...)
		kids = append(kids, &GItem{F: "", Var: name})
		it.Kids = append(kids, it.Kids[pos:]...)
	}
	return it
}

// snap: random templates and messages, observed.
func driverSnap(c *Ctx) {
	for i := 0; i < c.N; i++ {
		if !c.want(i) {
			continue
		}
		g := c.gen(i)
		g.NoDigits = true
		g.Ladder, g.LadderTo = 25, 129
		es := 0
		var t *GItem
		switch g.pick(4) {
		case 0:
			t = g.tree(1+g.pick(3), false)
		case 1:
			t = g.tree(1+g.pick(3), true)
		default:
			t = g.treeEll(1+g.pick(3), &es)
		}
		if es == 1 && g.pick(2) == 0 {
			renameEll(t, "...[0]", "...")
		}
		it := t.Build()
		ev := observe(it)
		ev["ev"], ev["kind"] = "snap", "item"
		c.emit(i, ev)
		if i%5 == 0 {
			// try to get the same name twice into one tree; whatever can be built is observed like any other item
			n := g.newVar()
			for _, build := range []func() ast.ItemNode{
				func() ast.ItemNode { return ast.NewListNode(ast.NewUintNode(1, n), ast.NewIntNode(2, n)) },
				func() ast.ItemNode {
					return ast.NewListNode(ast.NewListNode(ast.NewBooleanNode(n)), it, ast.NewListNode(ast.NewASCIINodeVariable(n, 0, -1)))
				},
				func() ast.ItemNode {
					return ast.NewListNode(ast.NewUintNode(1, "zz9"), ast.NewIntNode(2, n)).FillVariables(map[string]interface{}{"zz9": n})
				},
				func() ast.ItemNode {
					return ast.NewListNode("zz9", ast.NewIntNode(2, n)).FillVariables(map[string]interface{}{"zz9": ast.NewFloatNode(4, n)})
				},
				func() ast.ItemNode { return ast.NewListNode(n, ast.NewListNode(n)) },
				func() ast.ItemNode { // ... one level down, with no other key in the map
					return ast.NewListNode(ast.NewListNode("zz9"), it, ast.NewIntNode(2, n)).FillVariables(map[string]interface{}{"zz9": ast.NewListNode(ast.NewFloatNode(4, n))})
				},
				// ... and the names of repeat markers are names like any other
				func() ast.ItemNode {
					return ast.NewListNode(ast.NewListNode(ast.NewUintNode(1, 1), "..."), "...")
				},
				func() ast.ItemNode {
					return ast.NewListNode(ast.NewListNode(ast.NewUintNode(1, 1), "...[0]"), it, ast.NewListNode(ast.NewUintNode(1, 2), "...[0]"), "...[1]")
				},
				func() ast.ItemNode {
					return ast.NewListNode("zz9", "...").FillVariables(map[string]interface{}{"zz9": ast.NewListNode(ast.NewBooleanNode(true), "...")})
				},
				// ... a name the expansion generates next to a variable that carries that very name already, with nothing
				// but the repeat count in the map (and with a key that names nothing beside it)
				func() ast.ItemNode {
					return ast.NewListNode(ast.NewListNode(ast.NewUintNode(1, n), "..."), ast.NewUintNode(1, n+"[0]")).FillVariables(map[string]interface{}{"...": 1})
				},
				func() ast.ItemNode {
					return ast.NewListNode(ast.NewUintNode(1, n), "...", ast.NewUintNode(1, n+"[1]")).FillVariables(map[string]interface{}{"...": 2})
				},
				func() ast.ItemNode {
					return ast.NewListNode(ast.NewListNode(ast.NewBooleanNode(n), "..."), it, ast.NewASCIINodeVariable(n+"[1]", 0, -1)).FillVariables(map[string]interface{}{"...": 1, "nothing9": 1})
				},
			} {
				var d ast.ItemNode
				if p, _ := try(func() { d = build() }); !p {
					dev := observe(d)
					dev["ev"], dev["kind"] = "snap", "item"
					c.emit(i, dev)
					c.count("snap.duplicate-built")
				}
			}
		}
		if i%7 == 3 {
			// one list of k variables as first element of two further lists, each with a variable of its own behind it;
			// the first is observed again after the second was built
			k := []int{1, 2, 3, 3, 5, 6, 7, 9}[g.pick(8)]
			args := make([]interface{}, k)
			for j := range args {
				args[j] = g.newVar()
			}
			common := ast.NewListNode(args...)
			switch g.pick(4) {
			case 0: // more variables below than elements at the top
				common = ast.NewListNode(ast.NewUintNode(1, args...), g.newVar())
			case 1: // none at all
				common = ast.NewListNode(ast.NewUintNode(1, 1), ast.NewListNode())
			case 2: // ... and deeper
				common = ast.NewListNode(ast.NewListNode(ast.NewIntNode(2, args...)), ast.NewListNode(ast.NewBooleanNode(g.newVar(), g.newVar())))
			}
			p1 := ast.NewListNode(common, ast.NewUintNode(1, g.newVar()), g.newVar())
			p2 := ast.NewListNode(common, ast.NewIntNode(2, g.newVar()))
			p3 := ast.NewListNode(common, g.newVar(), g.newVar(), g.newVar()).FillVariables(map[string]interface{}{})
			for _, x := range []ast.ItemNode{p1, p2, p3, common, p1} {
				sev := observe(x)
				sev["ev"], sev["kind"] = "snap", "item"
				c.emit(i, sev)
			}
			c.count("snap.shared")
		}
		gm := g.header(false)
		m := ast.NewDataMessage(gm.Name, gm.S, gm.F, gm.W, gm.Dir, it)
		if g.pick(2) == 0 {
			m = m.SetSessionIDAndSystemBytes(gm.Sid, gm.Sys)
		}
		ev2 := observeMsg(m)
		ev2["ev"], ev2["kind"] = "snap", "msg"
		c.emit(i, ev2)
		c.count("snap.cases")
		if i%10 == 0 {
			emptyItemCases(c, i, g)
		}
	}
}

// emptyItemCases: trees that hold an explicit empty item as a list element (passed to the list factory, or filled into a
// list-level variable to leave an optional sub-item out), alone, next to real variables, and further down. Such a list
// has nothing to print or encode at that position; whether it is refused, or built and never encodable, the variable
// list and the encoding must tell the same story.
func emptyItemCases(c *Ctx, i int, g *Gen) {
	empty := ast.NewEmptyItemNode
	v1, v2 := g.newVar(), g.newVar()
	leaf := func() ast.ItemNode { return ast.NewUintNode(1, g.pick(200)) }
	shapes := []struct {
		how  string
		real []string // the real variables, in printing order
		mk   func() ast.ItemNode
	}{
		{"direct", nil, func() ast.ItemNode { return ast.NewListNode(empty()) }},
		{"direct-siblings", nil, func() ast.ItemNode { return ast.NewListNode(leaf(), empty(), ast.NewASCIINode("a")) }},
		{"direct-nested", nil, func() ast.ItemNode { return ast.NewListNode(leaf(), ast.NewListNode(ast.NewListNode(empty(), leaf()))) }},
		{"direct-with-var", []string{v1}, func() ast.ItemNode { return ast.NewListNode(empty(), ast.NewUintNode(2, v1)) }},
		{"fill", nil, func() ast.ItemNode {
			return ast.NewListNode(leaf(), v1).FillVariables(map[string]interface{}{v1: empty()})
		}},
		{"fill-nested", nil, func() ast.ItemNode {
			return ast.NewListNode(leaf(), ast.NewListNode(ast.NewASCIINode("x"), v1)).FillVariables(map[string]interface{}{v1: empty()})
		}},
		{"fill-one-of-two", []string{v2}, func() ast.ItemNode {
			return ast.NewListNode(v1, leaf(), v2).FillVariables(map[string]interface{}{v1: empty()})
		}},
		{"fill-then-rest", nil, func() ast.ItemNode {
			return ast.NewListNode(v1, ast.NewIntNode(1, v2)).FillVariables(map[string]interface{}{v1: empty()}).FillVariables(map[string]interface{}{v2: 5})
		}},
	}
	// an item type of the application's own (the interface is public: a format the library has no node for), with a
	// variable of its own or filled, in a list next to the library's nodes
	fv := g.newVar()
	shapes = append(shapes, []struct {
		how  string
		real []string
		mk   func() ast.ItemNode
	}{
		{"foreign-open", []string{fv}, func() ast.ItemNode { return ast.NewListNode(leaf(), &jisNode{name: fv}) }},
		{"foreign-open-nested", []string{fv}, func() ast.ItemNode {
			return ast.NewListNode(ast.NewListNode(ast.NewASCIINode("k"), ast.NewListNode(&jisNode{name: fv})), leaf())
		}},
		{"foreign-open-and-own", []string{v1, fv}, func() ast.ItemNode { return ast.NewListNode(ast.NewIntNode(2, v1), &jisNode{name: fv}) }},
		{"foreign-open-own-filled", []string{fv}, func() ast.ItemNode {
			return ast.NewListNode(ast.NewIntNode(2, v1), &jisNode{name: fv}).FillVariables(map[string]interface{}{v1: 3})
		}},
		{"foreign-open-alone", []string{fv}, func() ast.ItemNode { return &jisNode{name: fv} }},
	}...)
	for _, sh := range shapes {
		ev := J{"ev": "snapempty", "how": sh.how, "built": false, "vars": []interface{}{}, "real": []interface{}{}, "bytes": []int{}, "size": -2,
			"msgbuilt": false, "msgvars": []interface{}{}, "msgbytes": []int{}}
		real := []interface{}{}
		for _, n := range sh.real {
			real = append(real, chars(n))
		}
		ev["real"] = real
		var it ast.ItemNode
		if p, _ := try(func() { it = sh.mk() }); !p && it != nil {
			ev["built"] = true
			vs := []interface{}{}
			for _, n := range it.Variables() {
				vs = append(vs, chars(n))
			}
			ev["vars"], ev["bytes"], ev["size"] = vs, bytesJ(it.ToBytes()), it.Size()
			var m *ast.DataMessage
			if p, _ := try(func() {
				m = ast.NewDataMessage("m", 1, 1, 1, "H->E", it).SetSessionIDAndSystemBytes(1, []byte{0, 0, 0, 1})
			}); !p && m != nil {
				ev["msgbuilt"] = true
				mv := []interface{}{}
				for _, n := range m.Variables() {
					mv = append(mv, chars(n))
				}
				ev["msgvars"], ev["msgbytes"] = mv, bytesJ(m.ToBytes())
			}
		}
		c.emit(i, ev)
		c.count("snap.emptyitem")
	}
}

// jisNode: an item type that is not the library's (JIS-8 text, format code 0o21), holding one variable until it is filled
type jisNode struct {
	name string
	text string
	done bool
}

func (n *jisNode) Size() int {
	if n.done {
		return len(n.text)
	}
	return -1
}
func (n *jisNode) Variables() []string {
	if n.done {
		return []string{}
	}
	return []string{n.name}
}
func (n *jisNode) FillVariables(values map[string]interface{}) ast.ItemNode {
	if v, ok := values[n.name]; ok && !n.done {
		if s, ok := v.(string); ok {
			return &jisNode{name: n.name, text: s, done: true}
		}
	}
	return n
}
func (n *jisNode) ToBytes() []byte {
	if !n.done {
		return []byte{}
	}
	return append([]byte{0x45, byte(len(n.text))}, n.text...)
}
func (n *jisNode) String() string {
	if !n.done {
		return "<J " + n.name + ">"
	}
	return fmt.Sprintf("<J %q>", n.text)
}

func renameEll(t *GItem, from, to string) {
	if t.F == "" && t.Var == from {
		t.Var = to
	}
	for _, k := range t.Kids {
		renameEll(k, from, to)
	}
}

// ---------------------------------------------------------------- C09

// valueJ is the abstract form of a fill-in value / constructor argument for format f.
func valueJ(f string, v interface{}) interface{} {
	if f == "F4" || f == "F8" {
		// integer arguments of a float item: the mathematical value rounded once to the item's width (math/big)
		if r, ok := floatOfIntJ(v, f); ok {
			return r
		}
		switch x := v.(type) {
		case int:
			return floatArgJ(float64(x), f)
		case int8:
			return floatArgJ(float64(x), f)
		case int16:
			return floatArgJ(float64(x), f)
		case int32:
			return floatArgJ(float64(x), f)
		case int64:
			return floatArgJ(float64(x), f)
		case uint:
			return floatArgJ(float64(x), f)
		case uint8:
			return floatArgJ(float64(x), f)
		case uint16:
			return floatArgJ(float64(x), f)
		case uint32:
			return floatArgJ(float64(x), f)
		case uint64:
			return floatArgJ(float64(x), f)
		}
	}
	if f != "" && (f[0] == 'I' || f[0] == 'U') {
		// a float argument of an integer item (not a documented argument type): the integer it denotes, if it is one
		var fv float64
		isF := true
		switch x := v.(type) {
		case float64:
			fv = x
		case float32:
			fv = float64(x)
		default:
			isF = false
		}
		if isF {
			if math.IsNaN(fv) || math.IsInf(fv, 0) || fv != math.Trunc(fv) {
				return J{"neg": false, "dec": decDigits("1208925819614629174706176"), "frac": true} // in no integer item's domain
			}
			bi, _ := new(big.Float).SetFloat64(fv).Int(nil)
			return J{"neg": bi.Sign() < 0, "dec": decDigits(new(big.Int).Abs(bi).String())}
		}
	}
	switch x := v.(type) {
	case ast.ItemNode:
		return projItem(x)
	case string:
		return J{"s": chars(x)}
	case bool:
		return J{"t": x}
	case float64:
		return floatArgJ(x, f)
	case float32:
		return floatArgJ(float64(x), f)
	case int:
		if f == "B" {
			if x >= 0 && x < 1<<20 {
				return J{"b": x}
			}
			return J{"b": -1}
		}
		return intJ(int64(x))
	case int8:
		return intJ(int64(x))
	case int16:
		return intJ(int64(x))
	case int32:
		return intJ(int64(x))
	case int64:
		return intJ(x)
	case uint:
		return uintJ(uint64(x))
	case uint8:
		return uintJ(uint64(x))
	case uint16:
		return uintJ(uint64(x))
	case uint32:
		return uintJ(uint64(x))
	case uint64:
		return uintJ(x)
	}
	panic(fmt.Sprintf("valueJ: %T", v))
}

// an integer argument of a float item: correctly rounded to the item's width from the exact value, by math/big
func floatOfIntJ(v interface{}, f string) (J, bool) {
	bf := new(big.Float).SetPrec(80)
	switch x := v.(type) {
	case int:
		bf.SetInt64(int64(x))
	case int8:
		bf.SetInt64(int64(x))
	case int16:
		bf.SetInt64(int64(x))
	case int32:
		bf.SetInt64(int64(x))
	case int64:
		bf.SetInt64(x)
	case uint:
		bf.SetUint64(uint64(x))
	case uint8:
		bf.SetUint64(uint64(x))
	case uint16:
		bf.SetUint64(uint64(x))
	case uint32:
		bf.SetUint64(uint64(x))
	case uint64:
		bf.SetUint64(x)
	default:
		return nil, false
	}
	f64, _ := bf.Float64()
	r := floatArgJ(f64, f)
	if f == "F4" {
		f32, _ := bf.Float32()
		b := math.Float32bits(f32)
		r["bits"] = []int{int(b >> 24), int(b >> 16 & 255), int(b >> 8 & 255), int(b & 255)}
		r["txt"] = chars(strconv.FormatFloat(float64(f32), 'g', -1, 32))
	}
	return r, true
}

// a float argument: its exact float64 bit pattern and the pattern after Go's conversion to the target width
func floatArgJ(v float64, f string) J {
	size := 8
	if f == "F4" {
		size = 4
	}
	r := floatJ(v, size)
	b := math.Float64bits(v)
	b64 := make([]int, 8)
	for i := 0; i < 8; i++ {
		b64[i] = int(b >> (56 - 8*uint(i)) & 255)
	}
	r["bits64"] = b64
	return r
}

func goTypeName(v interface{}) string { return fmt.Sprintf("%T", v) }

// substG returns the description with the values substituted (for direct construction)
func substG(t *GItem, direct map[string]*GItem, sigma map[string]interface{}) *GItem {
	switch {
	case t.F == "":
		if d, ok := direct[t.Var]; ok {
			return d
		}
		return t
	case t.F == "L":
		r := &GItem{F: "L"}
		for _, k := range t.Kids {
			r.Kids = append(r.Kids, substG(k, direct, sigma))
		}
		return r
	case t.F == "A":
		if t.IsVar {
			if v, ok := sigma[t.Var]; ok {
				return &GItem{F: "A", Str: v.(string)}
			}
		}
		return t
	}
	r := &GItem{F: t.F}
	for _, v := range t.Vals {
		if s, ok := v.(string); ok {
			if val, ok := sigma[s]; ok {
				r.Vals = append(r.Vals, val)
				continue
			}
		}
		r.Vals = append(r.Vals, v)
	}
	return r
}

// badValue returns an out-of-domain fill-in value for format f
func (g *Gen) badValue(f string) interface{} {
	switch f {
	case "B":
		return []interface{}{256, -1, 1000}[g.pick(3)]
	case "BOOLEAN":
		return g.value("BOOLEAN") // booleans have no out-of-domain bool
	case "F4":
		return []interface{}{1e39, -3.5e38, math.Inf(1), math.NaN(), math.MaxFloat32 * (1 + 1e-9)}[g.pick(5)]
	case "F8":
		return []interface{}{math.Inf(-1), math.NaN()}[g.pick(2)]
	}
	bits := uint(fmtSize(f) * 8)
	if f[0] == 'I' {
		if bits == 64 {
			return uint64(1 << 63)
		}
		return []interface{}{int64(1) << (bits - 1), -(int64(1) << (bits - 1)) - 1}[g.pick(2)]
	}
	if bits == 64 {
		return int64(-1)
	}
	return []interface{}{uint64(1) << bits, int64(-1)}[g.pick(2)]
}

func outcomeOf(f func() ast.ItemNode) (J, ast.ItemNode) {
	var it ast.ItemNode
	if p, _ := try(func() { it = f() }); p {
		return J{"outcome": "refused"}, nil
	}
	o := observe(it)
	o["outcome"] = "ok"
	return o, it
}

// renameEvent: a string filled into a variable of an array item renames it. Renaming onto a name that another
// variable of the item holds is refused like the constructor refuses the name twice; any other rename is a fill.
func renameEvent(g *Gen) J {
	f := []string{"B", "U2", "I4", "F8", "BOOLEAN", "U1"}[g.pick(6)]
	n := []int{3, 4, 63, 64, 65, 130}[g.pick(6)]
	vals := make([]interface{}, n)
	for k := range vals {
		vals[k] = g.value(f)
	}
	pa, pb, pc := 0, n/2, n-1
	if g.pick(2) == 0 {
		pa, pc = pc, pa
	}
	vals[pa], vals[pb], vals[pc] = "va", "vb", "vc"
	target := []string{"va", "vc", "fresh9", "vb", "va[0]"}[g.pick(5)]
	tm := &GItem{F: f, Vals: vals}
	t := tm.Build()
	sigma := map[string]interface{}{"vb": target, "unknown_key": 5}
	sj := []interface{}{J{"k": chars("unknown_key"), "v": intJ(5)}, J{"k": chars("vb"), "v": J{"var": chars(target)}}}
	ev := J{"ev": "fill", "tmpl": observe(t), "sigma": sj, "bad": chars(""), "nsteps": 1}
	ev["once"], _ = outcomeOf(func() ast.ItemNode { return t.FillVariables(sigma) })
	ev["steps"], _ = outcomeOf(func() ast.ItemNode {
		return t.FillVariables(map[string]interface{}{"unknown_key": 5}).FillVariables(sigma)
	})
	dv := append([]interface{}{}, vals...)
	dv[pb] = target
	ev["direct"], _ = outcomeOf(func() ast.ItemNode { return (&GItem{F: f, Vals: dv}).Build() })
	ev["msgfill"], ev["msgdirect"] = J{"outcome": "refused"}, J{"outcome": "refused"}
	return ev
}

// bringEvent: a list-level variable, at the top of the template or one or two lists further down, is filled with an item
// that has variables of its own; a second call then fills those. The result is the item constructed directly with
// everything in place. If a name the item brings is already used elsewhere in the template, the first call is refused.
func bringEvent(g *Gen) J {
	clash := g.pick(4) == 0
	var bring *GItem
	switch g.pick(3) {
	case 0:
		bring = &GItem{F: "U2", Vals: []interface{}{uint64(7), "in9a"}}
	case 1:
		bring = &GItem{F: "L", Kids: []*GItem{{F: "A", IsVar: true, Var: "in9a", Lo: 0, Hi: -1}, {F: "BOOLEAN", Vals: []interface{}{"in9b", true}}}}
	default:
		bring = &GItem{F: "L", Kids: []*GItem{{F: "I1", Vals: []interface{}{int64(-1)}}, {F: "L", Kids: []*GItem{{F: "F8", Vals: []interface{}{"in9a"}}}}}}
	}
	other := "other9"
	if clash {
		other = "in9a"
	}
	cur := &GItem{F: "L", Kids: []*GItem{{F: "A", Str: "k"}, {F: "", Var: "hole9"}}}
	depth := g.pick(3)
	for d := 0; d < depth; d++ {
		cur = &GItem{F: "L", Kids: []*GItem{{F: "U1", Vals: []interface{}{uint64(d)}}, cur}}
	}
	tm := &GItem{F: "L", Kids: []*GItem{cur, {F: "I4", Vals: []interface{}{other, int64(5)}}}}
	if g.pick(2) == 0 {
		tm = &GItem{F: "L", Kids: []*GItem{{F: "I4", Vals: []interface{}{other}}, cur}}
	}
	t := tm.Build()
	bi := bring.Build()
	sigma2 := g.fillValues(bring, nil)
	fmts := map[string]string{}
	collectFormats(bring, fmts)
	s2 := []interface{}{}
	for _, k := range sortedKeys(sigma2) {
		s2 = append(s2, J{"k": chars(k), "v": valueJ(fmts[k], sigma2[k])})
	}
	ev := J{"ev": "fillbring", "tmpl": observe(t), "depth": depth, "clash": clash,
		"sigma1": []interface{}{J{"k": chars("hole9"), "v": projItem(bi)}}, "sigma2": s2}
	one, r1 := outcomeOf(func() ast.ItemNode { return t.FillVariables(map[string]interface{}{"hole9": bi}) })
	ev["one"] = one
	// the value and values for the variables it brings in one and the same call: those keys name nothing in the template
	// (unknown keys are ignored), the brought variables stay as they are
	both := map[string]interface{}{"hole9": bi}
	for k, v := range sigma2 {
		both[k] = v
	}
	ev["oncall"], _ = outcomeOf(func() ast.ItemNode { return t.FillVariables(both) })
	ev["two"], ev["direct"] = J{"outcome": "refused"}, J{"outcome": "refused"}
	if r1 != nil {
		ev["two"], _ = outcomeOf(func() ast.ItemNode { return r1.FillVariables(sigma2) })
		ev["direct"], _ = outcomeOf(func() ast.ItemNode {
			return substG(tm, map[string]*GItem{"hole9": substG(bring, nil, sigma2)}, map[string]interface{}{}).Build()
		})
	}
	return ev
}

// outcomeSmall: outcome of a call whose result is too large to be recorded: refused, or the size and encoded length
func outcomeSmall(f func() ast.ItemNode) (J, ast.ItemNode) {
	var it ast.ItemNode
	refused := false
	func() {
		defer func() {
			if r := recover(); r != nil {
				refused = true
			}
		}()
		it = f()
	}()
	if refused {
		return J{"outcome": "refused", "size": -1, "enc": -1}, nil
	}
	return J{"outcome": "ok", "size": it.Size(), "enc": len(it.ToBytes())}, it
}

func driverFill(c *Ctx) {
	for i := 0; i < c.N; i++ {
		if !c.want(i) {
			continue
		}
		g := c.gen(i)
		if i%12 == 5 {
			c.emit(i, bringEvent(g))
			c.count("fill.brought-variables")
			continue
		}
		if i%12 == 7 {
			// a fill-in string around the largest item there can be: refused exactly where the factory refuses it,
			// whatever bounds the variable declares above that, alone, in a list and through a message
			n := []int{16777214, 16777215, 16777216, 16777217, 16777215 + 4096}[g.pick(5)]
			hi := []int{-1, -1, 16777216, 20000000, 1 << 40}[g.pick(5)]
			lo := []int{0, 1, 16777215}[g.pick(3)]
			if lo > n {
				lo = 0
			}
			str := strings.Repeat("abcdefgh", n/8+1)[:n]
			ev := J{"ev": "fillbig", "n": n, "lo": lo, "hi": hi >= 0, "via": g.pick(3)}
			ctor, _ := outcomeSmall(func() ast.ItemNode { return ast.NewASCIINode(str) })
			ev["ctor"] = ctor
			via := ev["via"].(int)
			ev["fill"], _ = outcomeSmall(func() ast.ItemNode {
				v := ast.NewASCIINodeVariable("big9", lo, hi)
				switch via {
				case 0:
					return v.FillVariables(map[string]interface{}{"big9": str})
				case 1:
					r := ast.NewListNode(ast.NewUintNode(1, 1), v).FillVariables(map[string]interface{}{"big9": str})
					b := r.ToBytes()
					if len(r.Variables()) != 0 || len(b) != 2+3+4+n {
						return ast.NewEmptyItemNode() // accepted, but not the item it should be: recorded as size 0
					}
					return ast.NewASCIINode(string(b[9:]))
				default:
					m := ast.NewDataMessage("big", 1, 1, 1, "H->E", v).FillVariables(map[string]interface{}{"big9": str}).SetSessionIDAndSystemBytes(1, []byte{0, 0, 0, 1})
					b := m.ToBytes()
					if len(m.Variables()) != 0 || len(b) != 14+4+n {
						return ast.NewEmptyItemNode()
					}
					return ast.NewASCIINode(string(b[18:]))
				}
			})
			c.emit(i, ev)
			c.count("fill.big")
			continue
		}
		if i%12 == 11 {
			c.emit(i, renameEvent(g))
			c.count("fill.renames")
			continue
		}
		g.Ladder, g.LadderTo = 25, 129
		tmpl := g.tree(1+g.pick(3), true)
		direct := map[string]*GItem{}
		sigma := g.fillValues(tmpl, direct)
		names := tmpl.VarNames()
		// leave some variables unmentioned, add unknown keys, sometimes one out-of-domain value
		for _, n := range names {
			if g.pick(4) == 0 {
				delete(sigma, n)
				delete(direct, n)
			}
		}
		bad := ""
		if g.pick(5) == 0 {
			bad = g.spoil(tmpl, sigma, direct)
		}
		sigma["unknown_key"] = 5
		sigma["Zz9"] = "text"
		// ... also keys of the shape of a repeat marker that the template does not have, with values of any kind
		switch g.pick(5) {
		case 0:
			sigma["..."] = "text"
		case 1:
			sigma["...[7]"] = ast.NewBooleanNode(true)
		case 2:
			sigma["...[0]"] = 1.5
		case 3:
			sigma["...[9]"] = -1
		}
		keys := sortedKeys(sigma)
		// abstract sigma with the variable's format
		fmts := map[string]string{}
		collectFormats(tmpl, fmts)
		sj := []interface{}{}
		for _, k := range keys {
			f := fmts[k]
			if f == "" {
				f = "I8"
			}
			sj = append(sj, J{"k": chars(k), "v": valueJ(f, sigma[k])})
		}
		t := tmpl.Build()
		ev := J{"ev": "fill", "tmpl": observe(t), "sigma": sj, "bad": chars(bad)}
		// once
		ev["once"], _ = outcomeOf(func() ast.ItemNode { return t.FillVariables(sigma) })
		// in steps: a random ordered partition of the keys
		parts := 1 + g.pick(4)
		steps := make([]map[string]interface{}, parts)
		for p := range steps {
			steps[p] = map[string]interface{}{}
		}
		for _, k := range keys {
			steps[g.pick(parts)][k] = sigma[k]
		}
		ev["steps"], _ = outcomeOf(func() ast.ItemNode {
			cur := t
			for _, s := range steps {
				cur = cur.FillVariables(s)
			}
			return cur
		})
		ev["nsteps"] = parts
		// direct construction with the values in place
		ev["direct"], _ = outcomeOf(func() ast.ItemNode { return substG(tmpl, direct, sigma).Build() })
		// the same through a message: bytes after completing
		gm := g.header(true)
		var mb, db J = J{"outcome": "refused"}, J{"outcome": "refused"}
		order := g.pick(4)
		try(func() {
			m := ast.NewDataMessage(gm.Name, gm.S, gm.F, 2, gm.Dir, t)
			switch order { // the producers in every order
			case 3:
				// the system bytes are reserved first (no session id yet), the session id comes last, with the message's own bytes
				m = m.SetSessionIDAndSystemBytes(-1, gm.Sys)
				for _, st := range steps {
					m = m.FillVariables(st)
				}
				m = m.SetWaitBit(gm.W == 1)
				m = m.SetSessionIDAndSystemBytes(gm.Sid, m.SystemBytes())
			case 0:
				m = m.FillVariables(sigma).SetWaitBit(gm.W == 1).SetSessionIDAndSystemBytes(gm.Sid, gm.Sys)
			case 1:
				m = m.SetSessionIDAndSystemBytes(gm.Sid, gm.Sys).FillVariables(sigma).SetWaitBit(gm.W == 1)
			default:
				m = m.SetWaitBit(gm.W == 1).SetSessionIDAndSystemBytes(gm.Sid, gm.Sys)
				for _, st := range steps {
					m = m.FillVariables(st)
				}
			}
			mb = J{"outcome": "ok", "bytes": bytesJ(m.ToBytes()), "vars": namesJ(m.Variables())}
		})
		try(func() {
			m := ast.NewHSMSDataMessage(gm.Name, gm.S, gm.F, gm.W, gm.Dir, substG(tmpl, direct, sigma).Build(), gm.Sid, gm.Sys)
			db = J{"outcome": "ok", "bytes": bytesJ(m.ToBytes()), "vars": []interface{}{}}
		})
		ev["msgfill"], ev["msgdirect"] = mb, db
		c.emit(i, ev)
		if bad != "" {
			c.count("fill.with-bad-value")
		}
		c.count("fill.cases")
	}
}

// gitemOf reads a real item back into generator form (through the representation-level projection), so that values
// can be chosen for the variables it has now - e.g. for the names an ellipsis expansion generated.
func gitemOf(n *ast.VerifNode) *GItem {
	byPos := func(vars map[string]int) map[int]string {
		r := map[int]string{}
		for k, p := range vars {
			r[p] = k
		}
		return r
	}
	switch n.Kind {
	case "none":
		return &GItem{F: "none"}
	case "L":
		it := &GItem{F: "L"}
		pv := byPos(n.Vars)
		for i, k := range n.Items {
			if k == nil {
				it.Kids = append(it.Kids, &GItem{F: "", Var: pv[i]})
			} else {
				it.Kids = append(it.Kids, gitemOf(k))
			}
		}
		return it
	case "A":
		if n.IsValue {
			return &GItem{F: "A", Str: n.Str}
		}
		return &GItem{F: "A", IsVar: true, Var: n.VarName, Lo: n.Min, Hi: n.Max}
	}
	pv := byPos(n.Vars)
	it := &GItem{}
	cnt := 0
	at := func(i int) interface{} { return nil }
	switch n.Kind {
	case "B":
		it.F, cnt, at = "B", len(n.Bins), func(i int) interface{} { return n.Bins[i] }
	case "BOOLEAN":
		it.F, cnt, at = "BOOLEAN", len(n.Bools), func(i int) interface{} { return n.Bools[i] }
	case "I":
		it.F, cnt, at = fmt.Sprintf("I%d", n.ByteSize), len(n.Ints), func(i int) interface{} { return n.Ints[i] }
	case "U":
		it.F, cnt, at = fmt.Sprintf("U%d", n.ByteSize), len(n.Uints), func(i int) interface{} { return n.Uints[i] }
	case "F":
		it.F, cnt, at = fmt.Sprintf("F%d", n.ByteSize), len(n.Floats), func(i int) interface{} { return n.Floats[i] }
	}
	for i := 0; i < cnt; i++ {
		if name, ok := pv[i]; ok {
			it.Vals = append(it.Vals, name)
		} else {
			it.Vals = append(it.Vals, at(i))
		}
	}
	return it
}

// fillell: a template with ellipses (and names of the shape the expansion generates) is given its repeat counts and
// values for the names it has afterwards - in one call, and counts first then values.
func driverFillEll(c *Ctx) {
	for i := 0; i < c.N; i++ {
		if !c.want(i) {
			continue
		}
		g := c.gen(i)
		g.MaxKids, g.MaxVals = 3, 3
		g.Indexed = i%2 == 0
		es := 0
		var tm *GItem
		for try := 0; try < 20; try++ {
			es, g.varSeq, g.names = 0, 0, nil
			tm = g.treeEll(1+g.pick(3), &es)
			if tm.F == "L" && es > 0 {
				break
			}
		}
		if tm.F != "L" {
			tm = &GItem{F: "L", Kids: []*GItem{tm}}
		}
		if i%10 == 7 {
			// one leaf that holds a name and the very name the expansion will give it (q7 next to q7[0], in either order,
			// or the chain q7, q7[0], q7[0][0]) in front of a repeat marker: all of them are renamed at once
			f := []string{"U1", "I2", "BOOLEAN", "B", "F4", "U8"}[g.pick(6)]
			vals := [][]interface{}{{"q7", "q7[0]"}, {"q7[0]", "q7"}, {"q7", "q7[0]", "q7[0][0]"}, {"q7[1]", "q7", "q7[0]"}}[g.pick(4)]
			leaf := &GItem{F: f, Vals: vals}
			kids := []*GItem{leaf, {F: "", Var: "..."}}
			switch g.pick(3) {
			case 1:
				kids = []*GItem{{F: "A", Str: "head"}, leaf, {F: "", Var: "..."}, {F: "U1", Vals: []interface{}{"tail9"}}}
			case 2:
				kids = []*GItem{{F: "L", Kids: []*GItem{leaf}}, {F: "", Var: "..."}}
			}
			tm = &GItem{F: "L", Kids: kids}
		}
		var enames []string
		ellNames(tm, &enames)
		counts := map[string]interface{}{}
		cj := []interface{}{}
		sortStrings(enames)
		for _, n := range enames {
			if g.pick(4) != 0 {
				k := g.pick(4)
				if g.pick(12) == 0 {
					k = 9 + g.pick(4) // an index that gains a digit
				}
				counts[n] = k
				cj = append(cj, J{"k": chars(n), "n": k})
			}
		}
		t := tm.Build()
		ev := J{"ev": "fillell", "tmpl": observe(t), "cnt": cj, "sigma": []interface{}{}}
		var expanded ast.ItemNode
		ev["expand"], expanded = outcomeOf(func() ast.ItemNode { return t.FillVariables(counts) })
		all := map[string]interface{}{}
		for k, v := range counts {
			all[k] = v
		}
		values := map[string]interface{}{}
		if expanded != nil {
			gt := gitemOf(ast.VerifProject(expanded))
			values = g.fillValues(gt, nil)
			for _, n := range gt.VarNames() {
				if g.pick(4) == 0 {
					delete(values, n)
				}
			}
			fmts := map[string]string{}
			collectFormats(gt, fmts)
			sj := []interface{}{}
			for _, k := range sortedKeys(values) {
				sj = append(sj, J{"k": chars(k), "v": valueJ(fmts[k], values[k])})
				all[k] = values[k]
			}
			ev["sigma"] = sj
		}
		if g.pick(3) == 0 {
			// a key of the shape of a repeat marker that the template does not have is an unknown key like any other
			all["...[42]"], values["...[41]"] = "text", 2.5
			if g.pick(2) == 0 {
				all["...[42]"] = -3
			}
		}
		ev["once"], _ = outcomeOf(func() ast.ItemNode { return t.FillVariables(all) })
		ev["steps"], _ = outcomeOf(func() ast.ItemNode { return t.FillVariables(counts).FillVariables(values) })
		// the same fill through a message holding the template: the item tree changes as the item alone does, nothing else
		gm := g.header(true)
		m := ast.NewDataMessage(gm.Name, gm.S, gm.F, 2, gm.Dir, t).SetSessionIDAndSystemBytes(gm.Sid, gm.Sys)
		ev["msgbefore"] = projMsg(m)
		ev["msgafter"] = J{"outcome": "refused"}
		try(func() {
			m2 := m.FillVariables(all)
			r := projMsg(m2)
			r["outcome"] = "ok"
			ev["msgafter"] = r
		})
		c.emit(i, ev)
		c.count("fillell.cases")
		if expanded == nil {
			c.count("fillell.refused")
		}
	}
}

func collectFormats(t *GItem, m map[string]string) {
	switch {
	case t.F == "":
		m[t.Var] = "item"
	case t.F == "L":
		for _, k := range t.Kids {
			collectFormats(k, m)
		}
	case t.F == "A":
		if t.IsVar {
			m[t.Var] = "A"
		}
	default:
		for _, v := range t.Vals {
			if s, ok := v.(string); ok {
				m[s] = t.F
			}
		}
	}
}

// spoil replaces one fill-in value by an out-of-domain one; returns the variable's name ("" if none)
func (g *Gen) spoil(t *GItem, sigma map[string]interface{}, direct map[string]*GItem) string {
	fm := map[string]string{}
	collectFormats(t, fm)
	bounds := map[string][2]int{}
	var walk func(t *GItem)
	walk = func(t *GItem) {
		if t.F == "A" && t.IsVar {
			bounds[t.Var] = [2]int{t.Lo, t.Hi}
		}
		for _, k := range t.Kids {
			walk(k)
		}
	}
	walk(t)
	for _, k := range sortedKeys(sigma) {
		f := fm[k]
		switch {
		case f == "A":
			b := bounds[k]
			switch {
			case b[1] != -1:
				sigma[k] = string(make([]byte, b[1]+1+g.pick(3)))
			case b[0] > 0:
				sigma[k] = string(make([]byte, b[0]-1))
			default:
				sigma[k] = "café"
			}
			return k
		case f != "" && f != "item" && f != "BOOLEAN":
			v := g.badValue(f)
			sigma[k] = v
			direct[k] = &GItem{F: f, Vals: []interface{}{v}}
			return k
		}
	}
	return ""
}

// ---------------------------------------------------------------- C12

var goIntTypes = []string{"int", "int8", "int16", "int32", "int64", "uint", "uint8", "uint16", "uint32", "uint64"}

// typedInt returns v converted to the named Go integer type, and whether v fits that type
func typedInt(tn string, neg bool, mag uint64) (interface{}, bool) {
	s := func(bits uint) (int64, bool) {
		if neg {
			if mag > 1<<(bits-1) {
				return 0, false
			}
			return -int64(mag-1) - 1, true
		}
		if mag > 1<<(bits-1)-1 {
			return 0, false
		}
		return int64(mag), true
	}
	u := func(bits uint) (uint64, bool) {
		if neg && mag != 0 {
			return 0, false
		}
		if bits < 64 && mag > 1<<bits-1 {
			return 0, false
		}
		return mag, true
	}
	switch tn {
	case "int":
		v, ok := s(64)
		return int(v), ok
	case "int8":
		v, ok := s(8)
		return int8(v), ok
	case "int16":
		v, ok := s(16)
		return int16(v), ok
	case "int32":
		v, ok := s(32)
		return int32(v), ok
	case "int64":
		v, ok := s(64)
		return v, ok
	case "uint":
		v, ok := u(64)
		return uint(v), ok
	case "uint8":
		v, ok := u(8)
		return uint8(v), ok
	case "uint16":
		v, ok := u(16)
		return uint16(v), ok
	case "uint32":
		v, ok := u(32)
		return uint32(v), ok
	}
	v, ok := u(64)
	return v, ok
}

// boundaryInts: every power-of-two boundary of every width, +-1, as (neg, magnitude)
func boundaryInts() [][2]uint64 {
	var r [][2]uint64
	for _, b := range []uint{7, 8, 15, 16, 31, 32, 63} {
		p := uint64(1) << b
		for _, m := range []uint64{p - 2, p - 1, p, p + 1} {
			r = append(r, [2]uint64{0, m}, [2]uint64{1, m})
		}
	}
	r = append(r, [2]uint64{0, 0}, [2]uint64{0, 1}, [2]uint64{1, 1}, [2]uint64{0, math.MaxUint64}, [2]uint64{0, math.MaxUint64 - 1},
		[2]uint64{0, 1 << 63}, [2]uint64{1, 1 << 63}, [2]uint64{0, 1<<63 + 1})
	// integers just beside the midpoint of two neighbouring float32 values, too long for a float64: rounding them to
	// float64 first lands exactly on the midpoint, and the second rounding then goes the wrong way
	for _, k := range []uint{54, 60, 62, 63} {
		u := uint64(1) << (k - 23) // distance of neighbouring float32 values at 2^k
		up, down := uint64(1)<<k+u/2+1, uint64(1)<<k+u+u/2-1
		r = append(r, [2]uint64{0, up}, [2]uint64{0, down})
		if k < 63 {
			r = append(r, [2]uint64{1, up}, [2]uint64{1, down})
		}
	}
	return r
}

var genNameRe = regexp.MustCompile(`^(.*)\[(\d{1,2})\]$`)

// generateName makes the library generate the name n itself, if n has the shape of a generated name: base[k] by
// expanding an ellipsis behind a variable called base, ...[k] by leaving k+2 ellipses open in one fill (they are numbered
// in order of appearance). What is refused is ignored: the point is that the library has seen, made and accepted the string
// in its legitimate role before it meets it in a role where it must be refused.
func generateName(n string) {
	m := genNameRe.FindStringSubmatch(n)
	if m == nil {
		return
	}
	k, _ := strconv.Atoi(m[2])
	if k > 20 {
		return
	}
	try(func() {
		if m[1] == "..." {
			kids := []interface{}{ast.NewUintNode(1, "gn_v")}
			for j := 0; j < k+2; j++ {
				name := "..."
				if j > 0 {
					name = fmt.Sprintf("...[%d]", 100+j)
				}
				kids = append(kids, ast.NewListNode(ast.NewUintNode(1, j), name))
			}
			ast.NewListNode(kids...).FillVariables(map[string]interface{}{"gn_v": 1, "...[150]": 0})
			// ... and with one of them filled, so that the others are renumbered during an expansion
			ast.NewListNode(append(kids, "...[99]")...).FillVariables(map[string]interface{}{"...[99]": 1})
			return
		}
		ast.NewListNode(ast.NewUintNode(1, m[1]), "...").FillVariables(map[string]interface{}{"...": k + 1})
	})
}

// ctor: factories called with values at and beyond every boundary, in every accepted Go type.
// One case = one (format, value); the value is tried in every Go type that can hold it.
func driverCtor(c *Ctx) {
	bi := boundaryInts()
	idx := 0
	numeric := []string{"I1", "I2", "I4", "I8", "U1", "U2", "U4", "U8", "F4", "F8", "B"}
	emit := func(f string, arg interface{}, extra J) {
		args := []interface{}{arg}
		pre := 0
		g := c.gen(idx)
		var after interface{}
		switch g.pick(3) {
		case 0: // the value in second position, behind an in-domain value
			args = []interface{}{g.value(f), arg}
			if g.pick(2) == 0 {
				// ... of exactly the Go type that has the item's width (what a decoder would pass): the value under
				// test behind it is of another type and is still judged on its own
				switch f {
				case "I1":
					args[0] = int8(1 - 2*int8(g.pick(2)))
				case "I2":
					args[0] = int16(300 - 600*int16(g.pick(2)))
				case "I4":
					args[0] = int32(70000 - 140000*int32(g.pick(2)))
				case "I8":
					args[0] = int64(5000000000)
				case "U1":
					args[0] = uint8(200)
				case "U2":
					args[0] = uint16(60000)
				case "U4":
					args[0] = uint32(4000000000)
				case "U8":
					args[0] = uint64(1) << 63
				case "F4":
					args[0] = float32(1.5)
				case "F8":
					args[0] = float64(2.5)
				}
			}
			pre = 1
		case 1: // ... in first position, in front of an in-domain value of the narrowest Go type the format takes
			switch {
			case f == "B":
				after = 1
			case f[0] == 'I':
				after = int8(-1)
			case f[0] == 'U':
				after = uint8(1)
			default:
				after = float32(0.5)
			}
			args = []interface{}{arg, after}
		}
		res, _ := outcomeOf(func() ast.ItemNode { return (&GItem{F: f, Vals: args}).Build() })
		ev := J{"ev": "ctor", "f": f, "go": goTypeName(arg), "arg": valueJ(f, arg), "pos": pre, "res": res, "after": J{"none": true}}
		if after != nil {
			ev["after"] = valueJ(f, after)
		}
		if pre == 1 {
			ev["first"] = valueJ(f, args[0])
		} else {
			ev["first"] = J{"none": true}
		}
		// the same value filled into a variable of the same format must be treated the same way
		fres, _ := outcomeOf(func() ast.ItemNode {
			return (&GItem{F: f, Vals: []interface{}{"x"}}).Build().FillVariables(map[string]interface{}{"x": arg})
		})
		ev["fillres"] = fres
		// ... also when a second variable is filled in the same call with a value of a narrow Go type
		if after != nil {
			fres2, _ := outcomeOf(func() ast.ItemNode {
				return (&GItem{F: f, Vals: []interface{}{"x", "y"}}).Build().FillVariables(map[string]interface{}{"x": arg, "y": after})
			})
			ev["fillres2"] = fres2
		}
		for k, v := range extra {
			ev[k] = v
		}
		c.emit(idx, ev)
		c.count("ctor." + f)
	}
	for _, f := range numeric {
		for _, b := range bi {
			for _, tn := range goIntTypes {
				if f == "B" && tn != "int" {
					continue // the binary factory accepts int and string only
				}
				v, fits := typedInt(tn, b[0] == 1, b[1])
				if !fits {
					continue
				}
				if c.want(idx) {
					emit(f, v, nil)
				}
				idx++
			}
		}
	}
	// random 64-bit values
	for k := 0; k < c.N; k++ {
		g := c.gen(1000000 + k)
		f := numeric[g.pick(len(numeric))]
		tn := goIntTypes[g.pick(len(goIntTypes))]
		if f == "B" {
			tn = "int"
		}
		mag := g.r.Uint64() >> uint(g.pick(64))
		v, fits := typedInt(tn, g.pick(2) == 0, mag)
		if fits {
			if c.want(idx) {
				emit(f, v, nil)
			}
			idx++
		}
	}
	// floats handed to integer items (numbers from a JSON document arrive as float64): not a documented argument type -
	// refused, or the integer the float denotes stored exactly; never a fraction cut off, never the range exceeded
	for _, f := range []string{"I1", "I2", "I4", "I8", "U1", "U2", "U4", "U8"} {
		for _, v := range []float64{0, 1, -1, 127, 128, 255, 256, -128, -129, 32768, 65536, 2147483648, 4294967296, 9007199254740992,
			9223372036854775808, -9223372036854775808, 9223372036854774784, 18446744073709551616, 18446744073709549568, 1.5, -0.5,
			1e300, math.NaN(), math.Inf(1)} {
			if c.want(idx) {
				emit(f, v, J{"foreign": true})
			}
			idx++
			if float64(float32(v)) == v && c.want(idx) {
				emit(f, float32(v), J{"foreign": true})
			}
			idx++
		}
	}
	// floats: every boundary of F4 and F8, as float64 and float32
	fl := []float64{0, math.Copysign(0, -1), 1, -1, 0.1, math.MaxFloat32, -math.MaxFloat32, math.MaxFloat32 * (1 + 1e-9),
		math.Nextafter(math.MaxFloat32, math.Inf(1)), math.Nextafter(math.MaxFloat32, 0), 3.4028235677973366e38, 1e39, -1e39,
		math.MaxFloat64, -math.MaxFloat64, math.Inf(1), math.Inf(-1), math.NaN(), math.SmallestNonzeroFloat32,
		math.SmallestNonzeroFloat64, math.SmallestNonzeroFloat32 / 3, 16777217, 1e-46, 5e-324}
	for _, f := range []string{"F4", "F8"} {
		for _, v := range fl {
			if c.want(idx) {
				emit(f, v, nil)
			}
			idx++
			if float64(float32(v)) == v || math.IsNaN(v) {
				if c.want(idx) {
					emit(f, float32(v), nil)
				}
				idx++
			}
		}
	}
	// binary strings, ASCII strings
	for _, s := range []string{"0b0", "0b1", "0b11111111", "0b100000000", "0b2", "0b", "0b-1", "0b01", "0B1",
		"0b1" + strings.Repeat("0", 64), "0b1" + strings.Repeat("0", 56) + "10101010", "0b" + strings.Repeat("0", 70) + "1", "0b1" + strings.Repeat("0", 63),
		"0b" + strings.Repeat("1", 64), "0b1" + strings.Repeat("0", 31), "0b1" + strings.Repeat("0", 32) + "1"} {
		if c.want(idx) {
			res, _ := outcomeOf(func() ast.ItemNode { return ast.NewBinaryNode(s) })
			c.emit(idx, J{"ev": "ctorbin", "text": chars(s), "res": res})
			c.count("ctor.binstr")
		}
		idx++
	}
	for _, s := range []string{"", "a", "\x00\x7f", "\x80", "café", "\xff", "a\"b", "tab\there"} {
		if c.want(idx) {
			res, _ := outcomeOf(func() ast.ItemNode { return ast.NewASCIINode(s) })
			rs := []int{}
			for _, r := range s {
				rs = append(rs, int(r))
			}
			c.emit(idx, J{"ev": "ctorascii", "runes": rs, "rawlen": len(s), "res": res})
			c.count("ctor.ascii")
		}
		idx++
	}
	// variable names (array node, list, ASCII variable) and ellipsis placement
	names := []string{"a", "_", "a1", "1a", "", "a b", "a[0]", "a[0][12]", "a[", "a[]", "a[x]", "a]", "a.b", "...", "...[0]", "...[1][2]", "....", "..", "é", "a-b", "T", "L", "0b1",
		"a[1]x", "a[-1]", "a[1 ]", "a\n", "...[x]", "...[]", "...[12]",
		"x[\u0663]", "lot\uff12", "x[0][\uff11]", "_\u0660", "...[\u0661]", "x\u0663", "\u0661x", "a\u00b2"}
	for ch := 0; ch < 128; ch++ { // every 7-bit character as first and as second character
		names = append(names, string(rune(ch))+"x", "x"+string(rune(ch)))
	}
	for _, n := range names {
		if c.want(idx) {
			generateName(n) // the library has produced this very name itself before, where it can
			ev := J{"ev": "ctorname", "name": chars(n)}
			for k, f := range map[string]func() ast.ItemNode{
				"array":  func() ast.ItemNode { return ast.NewUintNode(1, n) },
				"ascii":  func() ast.ItemNode { return ast.NewASCIINodeVariable(n, 0, -1) },
				"list1":  func() ast.ItemNode { return ast.NewListNode(n) },
				"list2":  func() ast.ItemNode { return ast.NewListNode(ast.NewUintNode(1, 1), n) },
				"dup":    func() ast.ItemNode { return ast.NewListNode(n, ast.NewUintNode(1, n)) },
				"twoell": func() ast.ItemNode { return ast.NewListNode(ast.NewUintNode(1, 1), n, "...[7]") },
				// the same name twice anywhere in a tree: two children, two grandchildren, by renaming, by inserting an item
				"dupsib": func() ast.ItemNode { return ast.NewListNode(ast.NewUintNode(1, n), ast.NewIntNode(2, n)) },
				"dupcousin": func() ast.ItemNode {
					return ast.NewListNode(ast.NewListNode(ast.NewBooleanNode(n)), ast.NewListNode(ast.NewASCIINodeVariable(n, 0, -1)))
				},
				"duprename": func() ast.ItemNode {
					return ast.NewListNode(ast.NewUintNode(1, "zz9"), ast.NewIntNode(2, n)).FillVariables(map[string]interface{}{"zz9": n})
				},
				// ... within one node: a second variable renamed to the first one's name, for every node kind
				"dupsameU": func() ast.ItemNode {
					return ast.NewUintNode(2, n, "zz9").FillVariables(map[string]interface{}{"zz9": n})
				},
				"dupsameI": func() ast.ItemNode {
					return ast.NewIntNode(4, 1, n, "zz9").FillVariables(map[string]interface{}{"zz9": n})
				},
				"dupsameF": func() ast.ItemNode {
					return ast.NewFloatNode(8, "zz9", n).FillVariables(map[string]interface{}{"zz9": n})
				},
				"dupsameB": func() ast.ItemNode {
					if strings.HasPrefix(n, "0b") {
						panic("for a binary item 0b... is a literal, not a name: not tried")
					}
					return ast.NewBinaryNode(n, 7, "zz9").FillVariables(map[string]interface{}{"zz9": n})
				},
				"dupsamewide": func() ast.ItemNode { // ... in a node of more than 64 values, for a binary and an unsigned item
					if strings.HasPrefix(n, "0b") {
						panic("for a binary item 0b... is a literal, not a name: not tried")
					}
					vals := []interface{}{n}
					for k := 0; k < 70; k++ {
						vals = append(vals, k)
					}
					vals = append(vals, "zz9")
					b := ast.NewBinaryNode(vals...).FillVariables(map[string]interface{}{"zz9": n})
					return ast.NewListNode(b, ast.NewUintNode(2, vals...).FillVariables(map[string]interface{}{"zz9": n}))
				},
				// ... the first variable renamed to the name of a later one that the call does not mention
				"dupsameRI": func() ast.ItemNode {
					return ast.NewIntNode(2, "zz9", 7, n).FillVariables(map[string]interface{}{"zz9": n})
				},
				"dupsameRU": func() ast.ItemNode {
					return ast.NewUintNode(4, "zz9", n).FillVariables(map[string]interface{}{"zz9": n})
				},
				"dupsameRF": func() ast.ItemNode {
					return ast.NewFloatNode(8, "zz9", 1.5, n).FillVariables(map[string]interface{}{"zz9": n})
				},
				"dupsameRT": func() ast.ItemNode {
					return ast.NewBooleanNode("zz9", true, n).FillVariables(map[string]interface{}{"zz9": n})
				},
				"dupsameT": func() ast.ItemNode {
					return ast.NewBooleanNode(n, "zz9").FillVariables(map[string]interface{}{"zz9": n})
				},
				"dupnest": func() ast.ItemNode {
					return ast.NewListNode(ast.NewListNode(ast.NewUintNode(1, 1), n), n)
				},
				"dupnestfill": func() ast.ItemNode {
					return ast.NewListNode("zz9", n).FillVariables(map[string]interface{}{"zz9": ast.NewListNode(ast.NewUintNode(1, 1), n)})
				},
				// ... or by an expansion that generates a name the template already holds
				"dupgen": func() ast.ItemNode {
					return ast.NewListNode(ast.NewUintNode(1, n), "...", ast.NewUintNode(1, n+"[1]")).FillVariables(map[string]interface{}{"...": 1})
				},
				"dupgenfill": func() ast.ItemNode {
					return ast.NewListNode(ast.NewListNode(ast.NewBooleanNode(n)), "...", ast.NewIntNode(2, n+"[0]")).FillVariables(map[string]interface{}{"...": 2, n + "[0]": 5})
				},
				"dupinsertdeep": func() ast.ItemNode { // the item that brings the second occurrence goes in one level down
					return ast.NewListNode(ast.NewListNode(ast.NewBinaryNode(1), "zz9"), ast.NewIntNode(2, n)).FillVariables(map[string]interface{}{"zz9": ast.NewFloatNode(4, n)})
				},
				"dupinsert": func() ast.ItemNode {
					return ast.NewListNode("zz9", ast.NewIntNode(2, n)).FillVariables(map[string]interface{}{"zz9": ast.NewFloatNode(4, n)})
				},
			} {
				res, _ := outcomeOf(f)
				ev[k] = res["outcome"]
			}
			c.emit(idx, ev)
			c.count("ctor.names")
		}
		idx++
	}
	// ASCII variable bounds
	for _, b := range [][2]int{{0, -1}, {0, 0}, {3, 3}, {2, 5}, {5, 2}, {-1, 3}, {0, -2}, {1, -1}, {math.MaxInt64, -1}, {0, math.MaxInt64}} {
		if c.want(idx) {
			res, _ := outcomeOf(func() ast.ItemNode { return ast.NewASCIINodeVariable("v", b[0], b[1]) })
			c.emit(idx, J{"ev": "ctorbounds", "lo": intJ(int64(b[0])), "hi": intJ(int64(b[1])), "res": res})
			c.count("ctor.bounds")
		}
		idx++
	}
	// message factories
	for k := 0; k < 200; k++ {
		if c.want(idx) {
			g := c.gen(idx)
			s := []int{0, 1, 127, 128, -1, 255, g.pick(300) - 20}[g.pick(7)]
			f := []int{0, 1, 255, 256, -1, 2, g.pick(600) - 50}[g.pick(7)]
			w := []int{0, 1, 2, 3, -1}[g.pick(5)]
			dir := []string{"H->E", "H<-E", "H<->E", "", "h->e", "E->H"}[g.pick(6)]
			name := []string{"", "n", "a b", "a\tb", "a b", "x\n", "ok.name", " "}[g.pick(8)]
			sid := []int{-1, 0, 65535, 65536, -2, g.pick(70000)}[g.pick(6)]
			sys := make([]byte, g.pick(7))
			g.r.Read(sys)
			hsmsRoute := g.pick(2) == 0
			var m *ast.DataMessage
			refused, _ := try(func() {
				if hsmsRoute {
					m = ast.NewHSMSDataMessage(name, s, f, w, dir, ast.NewEmptyItemNode(), sid, sys)
				} else {
					m = ast.NewDataMessage(name, s, f, w, dir, ast.NewEmptyItemNode())
				}
			})
			nr := []int{}
			for _, r := range name {
				nr = append(nr, int(r))
			}
			ev := J{"ev": "ctormsg", "hsms": hsmsRoute, "s": s, "f": f, "w": w, "dir": dir, "name": nr, "namespace": hasSpace(name),
				"sid": sid, "sys": bytesJ(sys), "refused": refused, "msg": J{"none": true}}
			if !refused {
				ev["msg"] = projMsg(m)
			}
			c.emit(idx, ev)
			c.count("ctor.msg")
		}
		idx++
	}
}

func hasSpace(s string) bool {
	for _, r := range s {
		if unicode.IsSpace(r) {
			return true
		}
	}
	return false
}

var _ = strconv.Itoa

// fillself (isolated worker): one call that fills a repeat marker and, into a list-level variable, a list that is live
// elsewhere - a list with a variable of its own (and a key for that variable in the same map), a list another parent
// holds, the template itself.  The one-call fill equals the fill in two steps (C09: composition), nothing that
// existed before is changed by it (pure substitution), and the call returns - a process that dies in it is recorded
// by the parent as outcome "abort".
func driverFillSelf(c *Ctx) {
	for i := c.From; i < c.N; i++ {
		if !c.want(i) {
			continue
		}
		c.emit(i, J{"ev": "begin", "variant": 0})
		c.out.Flush()
		g := c.gen(i)
		x := fmt.Sprintf("x%d", i)
		inner := ast.NewListNode(ast.NewUintNode(1, x), ast.NewASCIINode("keep"))
		if g.pick(3) == 0 {
			inner = ast.NewListNode(ast.NewListNode(ast.NewIntNode(2, x, 5)), ast.NewBooleanNode(true))
		}
		var tm ast.ItemNode
		switch g.pick(3) {
		case 0:
			tm = ast.NewListNode(ast.NewListNode(ast.NewUintNode(1, "a"), "..."), "item")
		case 1:
			tm = ast.NewListNode("item", ast.NewListNode(ast.NewListNode(ast.NewBinaryNode("b"), "..."), ast.NewASCIINode("t")))
		default:
			tm = ast.NewListNode(ast.NewUintNode(2, "a"), "item", "...", ast.NewListNode(ast.NewFloatNode(8, "f")))
		}
		var val ast.ItemNode = inner
		how := g.pick(3)
		var other ast.ItemNode
		switch how {
		case 1: // the list is held by another parent too
			other = ast.NewListNode(inner, ast.NewUintNode(1, 9))
		case 2: // the template goes into its own variable
			val = tm
		}
		n := g.pick(3)
		withKey := g.pick(2) == 0
		one := map[string]interface{}{"...": n, "item": val}
		if withKey {
			one[x] = 7
		}
		dig := func(it ast.ItemNode) string {
			b, _ := json.Marshal(observe(it))
			return string(b)
		}
		before := []string{dig(inner), dig(tm)}
		if other != nil {
			before = append(before, dig(other))
		}
		ev := J{"ev": "fillself", "how": how, "n": n, "withkey": withKey, "outcome": "returned", "same": false, "pure": false, "refused": false}
		var r1, r2 ast.ItemNode
		p1, _ := try(func() { r1 = tm.FillVariables(one) })
		p2, _ := try(func() {
			r2 = tm.FillVariables(map[string]interface{}{"...": n}).FillVariables(map[string]interface{}{"item": val})
		})
		ev["refused"] = p1
		ev["same"] = p1 == p2 && (p1 || dig(r1) == dig(r2))
		after := []string{dig(inner), dig(tm)}
		if other != nil {
			after = append(after, dig(other))
		}
		ev["pure"] = strings.Join(before, "|") == strings.Join(after, "|")
		c.emit(i, ev)
		c.count("fillself.cases")
	}
}
