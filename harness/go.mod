module verif/harness

go 1.16

require github.com/wolimst/lib-secs2-hsms-go v0.0.0

replace github.com/wolimst/lib-secs2-hsms-go => /repo
