package main

// C10: ellipsis expansion. Drivers ell (random templates) and ell-replay (TLC's case table).

import (
	"bufio"
	"encoding/json"
	"fmt"
	"os"
	"strconv"

	"github.com/wolimst/lib-secs2-hsms-go/pkg/ast"
)

func init() {
	drivers["ell"] = driverEll
	drivers["ell-replay"] = driverEllReplay
}

func intsOf(v interface{}) []int {
	a, _ := v.([]interface{})
	r := make([]int, len(a))
	for i, x := range a {
		f, _ := x.(float64)
		r[i] = int(f)
	}
	return r
}

func strOf(v interface{}) string { return string(unJ(intsOf(v))) }

func decOf(v interface{}) (neg bool, s string) {
	m, _ := v.(map[string]interface{})
	neg, _ = m["neg"].(bool)
	for _, d := range intsOf(m["dec"]) {
		s += strconv.Itoa(d)
	}
	if s == "" {
		s = "0"
	}
	return
}

// absToG turns an abstract (value-level) item of the specification into factory arguments.
func absToG(v interface{}) *GItem {
	m := v.(map[string]interface{})
	if _, ok := m["f"]; !ok {
		if e, ok := m["ell"]; ok {
			k := int(e.(float64))
			if k < 0 {
				return &GItem{F: "", Var: "..."}
			}
			return &GItem{F: "", Var: fmt.Sprintf("...[%d]", k)}
		}
		return &GItem{F: "", Var: strOf(m["var"])}
	}
	f := m["f"].(string)
	g := &GItem{F: f}
	switch f {
	case "L":
		for _, k := range m["e"].([]interface{}) {
			g.Kids = append(g.Kids, absToG(k))
		}
		return g
	case "A":
		if name, ok := m["var"]; ok {
			g.IsVar, g.Var = true, strOf(name)
			_, lo := decOf(m["lo"])
			neg, hi := decOf(m["hi"])
			g.Lo, _ = strconv.Atoi(lo)
			g.Hi, _ = strconv.Atoi(hi)
			if neg {
				g.Hi = -g.Hi
			}
			return g
		}
		g.Str = strOf(m["s"])
		return g
	}
	for _, el := range m["e"].([]interface{}) {
		em := el.(map[string]interface{})
		switch {
		case em["var"] != nil:
			g.Vals = append(g.Vals, strOf(em["var"]))
		case em["b"] != nil:
			g.Vals = append(g.Vals, int(em["b"].(float64)))
		case em["t"] != nil:
			g.Vals = append(g.Vals, em["t"].(bool))
		case em["dec"] != nil:
			neg, s := decOf(el)
			if f[0] == 'U' {
				u, _ := strconv.ParseUint(s, 10, 64)
				g.Vals = append(g.Vals, u)
			} else {
				if neg {
					s = "-" + s
				}
				i, _ := strconv.ParseInt(s, 10, 64)
				g.Vals = append(g.Vals, i)
			}
		default:
			panic("absToG: unsupported element")
		}
	}
	return g
}

func hookRecorder(sink *[]interface{}) func(string, int, []int, int, bool, string, string) {
	return func(op string, dim int, idx []int, ecount int, multiple bool, oldName, newName string) {
		ix := make([]int, len(idx))
		copy(ix, idx)
		*sink = append(*sink, J{"op": op, "dim": dim, "idx": ix, "ecount": ecount, "old": chars(oldName), "new": chars(newName)})
	}
}

// ellEvent fills the ellipses of the built template and records the result, the hook events and
// follow-up fills of individual generated names.
func ellEvent(g *Gen, t ast.ItemNode, counts map[string]int) J {
	keys := []string{}
	for k := range counts {
		keys = append(keys, k)
	}
	sortStrings(keys)
	cj := []interface{}{}
	vals := map[string]interface{}{}
	for _, k := range keys {
		cj = append(cj, J{"k": chars(k), "n": counts[k]})
		vals[k] = counts[k]
	}
	hooks := []interface{}{}
	ast.VerifFillHook = hookRecorder(&hooks)
	res, filled := outcomeOf(func() ast.ItemNode { return t.FillVariables(vals) })
	ast.VerifFillHook = nil
	ev := J{"ev": "ell", "tmpl": observe(t), "cnt": cj, "res": res, "hooks": hooks}
	follow := []interface{}{}
	if filled != nil {
		names := filled.Variables()
		for k := 0; k < 3 && len(names) > 0; k++ {
			name := names[g.pick(len(names))]
			if ellRe.MatchString(name) {
				continue
			}
			// any value the position accepts: try the kinds in turn
			var after ast.ItemNode
			ok := false
			for _, v := range []interface{}{ast.NewBooleanNode(true), 1, true, 1.5, "", "s", "ss", "sss", "ssss", "sssss", "ssssss", "sssssss"} {
				p, _ := try(func() { after = filled.FillVariables(map[string]interface{}{name: v}) })
				if !p && !sameNames(after.Variables(), names) {
					ok = true
					break
				}
			}
			f := J{"name": chars(name), "ok": ok, "vars": []interface{}{}}
			if ok {
				f["vars"] = namesJ(after.Variables())
			}
			follow = append(follow, f)
		}
	}
	ev["follow"] = follow
	return ev
}

func sameNames(a, b []string) bool {
	if len(a) != len(b) {
		return false
	}
	for i := range a {
		if a[i] != b[i] {
			return false
		}
	}
	return true
}

func sortStrings(a []string) {
	for i := 1; i < len(a); i++ {
		for j := i; j > 0 && a[j] < a[j-1]; j-- {
			a[j], a[j-1] = a[j-1], a[j]
		}
	}
}

func ellNames(t *GItem, out *[]string) {
	if t.F == "" && ellRe.MatchString(t.Var) {
		*out = append(*out, t.Var)
	}
	for _, k := range t.Kids {
		ellNames(k, out)
	}
}

func driverEll(c *Ctx) {
	for i := 0; i < c.N; i++ {
		if !c.want(i) {
			continue
		}
		g := c.gen(i)
		g.MaxKids = 3
		g.MaxVals = 3
		g.Ladder, g.LadderTo = 30, 33
		g.Indexed = i%2 == 1 // names of the shape the expansion generates: "v1" next to "v1[0]"
		es := 0
		var t *GItem
		for try := 0; try < 20; try++ {
			es = 0
			g.varSeq = 0
			g.names = nil
			t = g.treeEll(2+g.pick(3), &es)
			if t.F == "L" && es > 0 {
				break
			}
		}
		if t.F != "L" {
			t = &GItem{F: "L", Kids: []*GItem{t}}
		}
		if es == 1 && g.pick(2) == 0 {
			renameEll(t, "...[0]", "...")
		}
		var names []string
		ellNames(t, &names)
		counts := map[string]int{}
		for _, n := range names {
			if g.pick(3) != 0 {
				counts[n] = []int{0, 1, 2, 3, 4}[g.pick(5)]
			}
		}
		if g.pick(6) == 0 {
			counts["...[99]"] = 2 // an ellipsis the template does not have
		}
		if i%16 == 3 {
			// many copies of an unfilled inner ellipsis: the remaining ellipses get two-digit numbers
			t = &GItem{F: "L", Kids: []*GItem{{F: "L", Kids: []*GItem{{F: "U1", Vals: []interface{}{"x"}}, {F: "", Var: "...[0]"}}}, {F: "", Var: "...[1]"}}}
			counts = map[string]int{"...[1]": 8 + g.pick(6)}
		}
		if i%16 == 7 {
			// an outer index that gains a digit (9 -> 10) while an inner ellipsis is expanded in every copy, at two depths
			inner := &GItem{F: "L", Kids: []*GItem{{F: "U1", Vals: []interface{}{"a"}}, {F: "", Var: "...[0]"}, {F: "A", IsVar: true, Var: "b", Lo: 0, Hi: -1}}}
			mid := &GItem{F: "L", Kids: []*GItem{inner, {F: "", Var: "m"}, {F: "", Var: "...[1]"}}}
			t = &GItem{F: "L", Kids: []*GItem{mid, {F: "BOOLEAN", Vals: []interface{}{"c"}}, {F: "", Var: "...[2]"}}}
			counts = map[string]int{"...[0]": 1 + g.pick(2), "...[1]": []int{0, 1, 9, 10, 11}[g.pick(5)], "...[2]": []int{9, 10, 11, 12}[g.pick(4)]}
			if g.pick(3) == 0 {
				delete(counts, "...[1]")
			}
		}
		if i%8 == 5 {
			// a fill that is refused while a repeated group is being expanded, right before: nothing of it may be left
			// behind for the next call (a name of the generated shape inside the group, at either nesting level)
			for _, bad := range []ast.ItemNode{
				ast.NewListNode(ast.NewListNode(ast.NewUintNode(1, "pt"), "...[0]", ast.NewUintNode(1, "pt[0]")), "...[1]"),
				ast.NewListNode(ast.NewUintNode(1, "q"), ast.NewListNode(ast.NewListNode(ast.NewBooleanNode("r"), "...[0]", ast.NewIntNode(2, "r[1]")), "...[1]"), "...[2]"),
			} {
				try(func() { bad.FillVariables(map[string]interface{}{"...[0]": 1, "...[1]": 1, "...[2]": 2}) })
			}
		}
		if i%16 == 11 {
			// very many ellipsis instances in one call: an outer count of 63..70 around two inner ellipses, one of them
			// filled with 0 (or left alone in the twin fill below)
			in1 := &GItem{F: "L", Kids: []*GItem{{F: "U1", Vals: []interface{}{"a"}}, {F: "", Var: "...[0]"}}}
			in2 := &GItem{F: "L", Kids: []*GItem{{F: "BOOLEAN", Vals: []interface{}{"b"}}, {F: "", Var: "...[1]"}, {F: "", Var: "w"}}}
			t = &GItem{F: "L", Kids: []*GItem{in1, in2, {F: "", Var: "...[2]"}, {F: "I2", Vals: []interface{}{"z"}}}}
			counts = map[string]int{"...[0]": g.pick(3), "...[1]": g.pick(2), "...[2]": 63 + g.pick(8)}
		}
		built := t.Build()
		c.emit(i, ellEvent(g, built, counts))
		c.count("ell.cases")
		if i%4 == 3 {
			// the same template object filled again with a neighbouring assignment: a count of 0 left out or put in, one
			// count one higher or lower (what one fill computes is of no use to the next)
			twin := map[string]int{}
			for k, v := range counts {
				twin[k] = v
			}
			changed := false
			for _, n := range names {
				v, has := twin[n]
				switch {
				case has && v == 0:
					delete(twin, n)
					changed = true
				case !has:
					twin[n] = 0
					changed = true
				}
				if changed {
					break
				}
			}
			if i%16 == 11 {
				twin = map[string]int{"...[0]": counts["...[0]"], "...[2]": counts["...[2]"]}
				if counts["...[1]"] != 0 {
					twin["...[1]"] = 0
				}
				changed = true
			}
			if !changed {
				for _, n := range names {
					if v, has := twin[n]; has {
						twin[n] = v + 1 - 2*(v%2)*g.pick(2)
						if twin[n] < 0 {
							twin[n] = 1
						}
						changed = true
						break
					}
				}
			}
			if changed {
				c.emit(i, ellEvent(g, built, twin))
				c.count("ell.twin-fills")
			}
		}
	}
}

func driverEllReplay(c *Ctx) {
	f, err := os.Open(c.In)
	if err != nil {
		fmt.Fprintln(os.Stderr, "harness:", err)
		os.Exit(3)
	}
	defer f.Close()
	sc := bufio.NewScanner(f)
	sc.Buffer(make([]byte, 1<<20), 1<<24)
	i := -1
	for sc.Scan() {
		i++
		if !c.want(i) {
			continue
		}
		var raw map[string]interface{}
		if err := json.Unmarshal(sc.Bytes(), &raw); err != nil {
			fmt.Fprintln(os.Stderr, "harness: bad case:", err)
			os.Exit(3)
		}
		counts := map[string]int{}
		for _, e := range raw["cnt"].([]interface{}) {
			m := e.(map[string]interface{})
			counts[strOf(m["k"])] = int(m["n"].(float64))
		}
		ev := ellEvent(c.gen(i), absToG(raw["tmpl"]).Build(), counts)
		ev["want"] = raw["want"]
		c.emit(i, ev)
		c.count("ell.replayed")
	}
}
