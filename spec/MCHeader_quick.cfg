SPECIFICATION Spec
CONSTANTS
  Block = 65536
  Stride = 61
INVARIANT BlockOK
CHECK_DEADLOCK FALSE
