SPECIFICATION Spec
CONSTANTS
  AsIsD10 = FALSE
  AsIsD12 = FALSE
INVARIANTS Independent NonVacuous
CHECK_DEADLOCK FALSE
