---------------------------- MODULE Concurrency ----------------------------
(* C17: goroutines calling observers, producers and the two parsers on      *)
(* shared immutable values.  A call is Start(w, op, obj) ... End(w); while  *)
(* it runs it reads the locations of the shared object (or of the shared    *)
(* parser input) and writes only locations it allocated itself.  There are  *)
(* no locks in the library, so there are none here: safety rests on the     *)
(* footprints, which the race detector checks on the real code for every    *)
(* concurrent configuration this model can reach.                           *)
EXTENDS Integers, Sequences, FiniteSets, TLC, Json
CONSTANTS Workers, CallsPerWorker
Objs == {"template", "message", "complete"}      \* a list template with variables and an ellipsis; a message on it; a complete message
Ops == {"String", "ToBytes", "Variables", "Size", "Header", "Fill", "SetWaitBit", "SetSession", "SmlParse", "HsmsParse"}
\* which operations exist on which shared object (parsers read a shared input text / byte string)
\* (two further shared things that only the hammer configurations use: "text", an SML text whose size declarations are written
\* with blanks, line breaks and comments, and "control", a control message nothing has looked at yet)
Applicable(op, o) == CASE o = "text" -> op = "SmlParse"
                       [] o = "control" -> op \in {"ToBytes", "Type"}
                       [] op \in {"String", "ToBytes", "Variables", "Fill"} -> TRUE
                       [] op = "Size" -> o = "template"
                       [] op \in {"Header", "SetWaitBit", "SetSession"} -> o # "template"
                       [] op = "SmlParse" -> o = "template"          \* parses the printed form of the shared template
                       [] op = "HsmsParse" -> o = "complete"         \* decodes the bytes of the shared complete message
VARIABLES running,   \* running[w] = [op, obj, id] or [op |-> "idle"]
          done,      \* number of calls each worker has finished
          fresh,     \* allocation counter: every call writes only locations (call ids) of its own
          seen       \* concurrent configurations reached (sets of [op, obj])
vars == <<running, done, fresh, seen>>
Idle == [op |-> "idle"]
Init == running = [w \in Workers |-> Idle] /\ done = [w \in Workers |-> 0] /\ fresh = 0 /\ seen = {}
Config(r) == {[op |-> r[w].op, obj |-> r[w].obj] : w \in {x \in Workers : r[x] # Idle}}
Start(w) == /\ running[w] = Idle /\ done[w] < CallsPerWorker
            /\ \E op \in Ops, o \in Objs : Applicable(op, o) /\
                 LET r == [running EXCEPT ![w] = [op |-> op, obj |-> o, id |-> fresh + 1]] IN
                 running' = r /\ seen' = seen \cup {Config(r)}
            /\ fresh' = fresh + 1 /\ UNCHANGED done
End(w) == running[w] # Idle /\ running' = [running EXCEPT ![w] = Idle] /\ done' = [done EXCEPT ![w] = @ + 1] /\ UNCHANGED <<fresh, seen>>
Next == \E w \in Workers : Start(w) \/ End(w)
Spec == Init /\ [][Next]_vars
\* footprints: shared locations read, own locations written
Reads(c) == {[kind |-> "shared", name |-> c.obj, id |-> 0]}
Writes(c) == {[kind |-> "fresh", name |-> "", id |-> c.id]}
NoConflict == \A w1, w2 \in Workers : (w1 # w2 /\ running[w1] # Idle /\ running[w2] # Idle) =>
                 Writes(running[w1]) \cap (Reads(running[w2]) \cup Writes(running[w2])) = {}
\* the state space is the configurations; the allocation counter and the call counts only bound the run
View == <<{[op |-> running[w].op, obj |-> IF running[w] = Idle THEN "" ELSE running[w].obj] : w \in Workers}, Cardinality({w \in Workers : running[w] # Idle})>>
=====================================================================
