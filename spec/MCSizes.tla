---------------------------- MODULE MCSizes ----------------------------
(* C15 at model level: a literal item with a size declaration [n], [a..b],  *)
(* [a..] or [..b] is accepted iff its element count (characters for ASCII,  *)
(* children for a list, values otherwise) lies within the declared bounds - *)
(* stated here directly on the numbers - and otherwise exactly one error is *)
(* reported, at the declaration.  Compared with the parser model for every  *)
(* type, every declaration form over 0..MaxB (written with and without a    *)
(* leading zero, with blanks inside the brackets) and every count 0..MaxN.  *)
(* An ASCII variable keeps its bounds: the printer model writes them back   *)
(* and the parser model reads the same template again.                      *)
EXTENDS SmlNorm, TLC, Json
CONSTANTS MaxB, MaxN
TypeWords == {<<76>>, <<65>>, <<66>>, <<66,79,79,76,69,65,78>>, <<70,52>>, <<70,56>>, <<73,49>>, <<73,50>>, <<73,52>>, <<73,56>>,
              <<85,49>>, <<85,50>>, <<85,52>>, <<85,56>>}
Num2(n, z) == (IF z THEN <<48>> ELSE <<>>) \o DecChars(n)
\* form: "n" [lo] / "r" [lo..hi] / "l" [lo..] / "h" [..hi]
Decl(form, lo, hi, z, sp) ==
   LET b == IF sp THEN <<32>> ELSE <<>> IN
   <<91>> \o b \o (CASE form = "n" -> Num2(lo, z)
                     [] form = "r" -> Num2(lo, z) \o b \o <<46, 46>> \o b \o Num2(hi, z)
                     [] form = "l" -> Num2(lo, z) \o <<46, 46>>
                     [] form = "h" -> <<46, 46>> \o Num2(hi, z)) \o b \o <<93>>
Within(form, lo, hi, k) == CASE form = "n" -> k = lo [] form = "r" -> lo <= k /\ k <= hi [] form = "l" -> lo <= k [] form = "h" -> k <= hi
RECURSIVE Rep(_, _)
Rep(s, k) == IF k = 0 THEN <<>> ELSE s \o Rep(s, k - 1)
Values(ty, k) == IF ty = <<65>> THEN <<32, 34>> \o Rep(<<120>>, k) \o <<34>>                 \* "xxx"
                 ELSE IF ty = <<76>> THEN Rep(<<32, 60, 66, 62>>, k)                           \* <B> <B> ..
                 ELSE IF Len(ty) = 7 THEN Rep(<<32, 84>>, k)                                    \* T T ..
                 ELSE Rep(<<32, 49>>, k)                                                         \* 1 1 ..
Head1 == <<83,49,70,49,32,87,32,72,45,62,69,10>>                                               \* S1F1 W H->E\n
Text(ty, d, k) == Head1 \o <<60>> \o ty \o d \o Values(ty, k) \o <<62, 10, 46>>
VarText(d) == Head1 \o <<60, 65>> \o d \o <<32, 118, 62, 10, 46>>                              \* <A[..] v>
VARIABLES cs, sel
NoCase == [k |-> "none"]
TySeq == SetToSeq(TypeWords)
Init == cs = NoCase /\ sel \in 0..Len(TySeq)
Forms == {"n", "r", "l", "h"}
Next == /\ cs = NoCase /\ UNCHANGED sel
        /\ \E form \in Forms, lo \in 0..MaxB, hi \in 0..MaxB, z \in BOOLEAN, sp \in BOOLEAN :
             /\ (form \in {"n", "l"} => hi = 0) /\ (form = "h" => lo = 0)
             /\ \/ sel > 0 /\ \E k \in 0..MaxN :
                     cs' = [k |-> "lit", text |-> Text(TySeq[sel], Decl(form, lo, hi, z, sp), k), ok |-> Within(form, lo, hi, k),
                            at |-> <<2, 2 + Len(TySeq[sel])>>, count |-> k, ty |-> TySeq[sel]]
                \/ sel = 0 /\ cs' = [k |-> "var", text |-> VarText(Decl(form, lo, hi, z, sp)), form |-> form, lo |-> lo, hi |-> hi]
SizeSpec == Init /\ [][Next]_<<cs, sel>>
\* TLC -> Go: every literal case with its verdict, the element count and the place of the declaration
EmitCase == cs = NoCase \/ cs.k # "lit" \/ PrintT("CASE " \o ToJson([text |-> cs.text, ok |-> cs.ok, at |-> cs.at, count |-> cs.count, ty |-> "size"]))
ToDecDigits(x) == LET d == DecStr(x) IN [i \in 1..Len(d) |-> d[i] - 48]
Agrees == cs = NoCase \/
   LET r == P(cs.text, <<>>)!ParseText IN
   /\ r.outcome = "returned"
   /\ cs.k = "lit" =>
        /\ (r.errs = <<>>) = cs.ok
        /\ cs.ok => Len(r.msgs) = 1 /\ (LET it == NormMsgM(r.msgs[1], <<>>).item IN (IF it.f = "A" THEN Len(it.s) ELSE Len(it.e)) = cs.count)
        /\ ~cs.ok => r.msgs = <<>> /\ r.errs = <<cs.at>>                     \* one error, at the declaration
   \* (an ASCII variable whose lower bound exceeds the upper one can take no string: the template is refused)
   /\ (cs.k = "var" /\ cs.form = "r" /\ cs.lo > cs.hi) => r.errs # <<>> /\ r.msgs = <<>>
   /\ (cs.k = "var" /\ ~(cs.form = "r" /\ cs.lo > cs.hi)) =>
        /\ r.errs = <<>> /\ Len(r.msgs) = 1
        /\ LET v == r.msgs[1].item IN
           /\ v.f = "A" /\ v.var = <<118>>
           /\ v.lo = OfSmall(IF cs.form = "h" THEN 0 ELSE cs.lo)
           /\ v.hasHi = (cs.form # "l")
           /\ v.hasHi => v.hi = OfSmall(IF cs.form = "n" THEN cs.lo ELSE cs.hi)
        \* printed back: the printer model's text of the template reads as the same template
        /\ LET m == r.msgs[1]
               pm == [name |-> m.name, s |-> m.s, f |-> m.f, w |-> m.w, dir |-> m.dir,
                      item |-> [f |-> "A", var |-> m.item.var, lo |-> [neg |-> FALSE, dec |-> ToDecDigits(m.item.lo)],
                                hi |-> IF m.item.hasHi THEN [neg |-> FALSE, dec |-> ToDecDigits(m.item.hi)] ELSE [neg |-> TRUE, dec |-> <<1>>]]]
               r2 == P(PrintMsg(pm), <<>>)!ParseText IN
           r2.errs = <<>> /\ r2.msgs = r.msgs
=====================================================================
