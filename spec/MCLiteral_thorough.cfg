SPECIFICATION LitSpec
CONSTANTS
  Widths = {8, 16, 32, 64}
  Zeros = {0, 1, 2, 3}
  Positions = {1, 2}
  AsIsD10 = FALSE
  AsIsD12 = FALSE
INVARIANTS Agrees Lemmas EmitCase
CHECK_DEADLOCK FALSE
