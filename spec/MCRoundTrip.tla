---------------------------- MODULE MCRoundTrip ----------------------------
(* C01 / C02 at model level: for every complete message in a bounded scope  *)
(* the decoder machine, run on the E5/E37 encoding, returns the message;    *)
(* the strict grammar agrees; encoding again gives the same bytes; and the  *)
(* encoding has the layout the standard prescribes.                         *)
(* Scope: all 13 leaf formats with 0..MaxVals values from per-format        *)
(* boundary payloads, lists nested to depth 2, header corner values; plus   *)
(* the complete (stream, function, wait bit) and session-id spaces.         *)
EXTENDS HsmsDecoder, Json
CONSTANTS MaxVals, MaxKids, EmitEvery

\* boundary payloads of one element per format code
Zero(w) == [i \in 1..w |-> 0]
Ones(w) == [i \in 1..w |-> 255]
MinS(w) == [i \in 1..w |-> IF i = 1 THEN 128 ELSE 0]
MaxS(w) == [i \in 1..w |-> IF i = 1 THEN 127 ELSE 255]
One(w)  == [i \in 1..w |-> IF i = w THEN 1 ELSE 0]
ElemSet(c) == CASE c = 16 -> {<<0>>, <<31>>, <<32>>, <<34>>, <<92>>, <<127>>}
                [] c = 9  -> {<<0>>, <<1>>}
                [] c = 36 -> {Zero(4), MinS(4), <<127, 127, 255, 255>>, <<255, 127, 255, 255>>, One(4), <<63, 128, 0, 0>>}
                [] c = 32 -> {Zero(8), MinS(8), <<127, 239, 255, 255, 255, 255, 255, 255>>, One(8), <<63, 240, 0, 0, 0, 0, 0, 0>>}
                [] OTHER  -> {Zero(Width(c)), Ones(Width(c)), MinS(Width(c)), MaxS(Width(c)), One(Width(c))}
SeqsUpTo(S, n) == UNION {[1..k -> S] : k \in 0..n}
Leaves(c, n) == {[c |-> c, b |-> FlattenSeq(vs)] : vs \in SeqsUpTo(ElemSet(c), n)}
LeafCodes == Codes \ {0}
AllLeaves == UNION {Leaves(c, MaxVals) : c \in LeafCodes}
SmallLeaves == UNION {Leaves(c, 1) : c \in LeafCodes}
Lists1 == {[c |-> 0, e |-> es] : es \in SeqsUpTo(SmallLeaves, MaxKids)}
\* depth 2: lists of (a few) depth-1 lists and leaves
Few1 == {x \in Lists1 : Len(x.e) <= 1} \cup {[c |-> 0, e |-> <<[c |-> 41, b |-> <<1>>], [c |-> 16, b |-> <<65>>]>>]}
Lists2 == {[c |-> 0, e |-> es] : es \in SeqsUpTo(Few1 \cup Leaves(41, 1), MaxKids)}
Items == AllLeaves \cup Lists1 \cup Lists2 \cup {NONE}

Headers == {[sid |-> sid, w |-> w, s |-> s, f |-> f, sys |-> sys] :
              sid \in {0, 65535}, w \in {0, 1}, s \in {0, 127}, f \in {1, 255}, sys \in {<<0, 0, 0, 0>>, <<255, 1, 128, 127>>}}
Mk(h, item) == [kind |-> "data", sid |-> h.sid, w |-> h.w, s |-> h.s, f |-> h.f, sys |-> h.sys, item |-> item]

VARIABLES msg, sel
rtvars == <<msg, sel, input, m>>
BaseH == [sid |-> 7, w |-> 1, s |-> 1, f |-> 1, sys |-> <<1, 2, 3, 4>>]
\* the scope is cut into selectors (initial states) so that TLC's workers share the enumeration
Selectors == {[k |-> "leaf", c |-> c] : c \in LeafCodes} \cup {[k |-> "list1", c |-> c] : c \in 0..MaxKids}
             \cup {[k |-> "list2", c |-> 0], [k |-> "hdr", c |-> 0], [k |-> "sid", c |-> 0]}
             \cup {[k |-> "sfw", c |-> s] : s \in 0..127}
Msgs(x) == CASE x.k = "leaf"  -> {Mk(BaseH, it) : it \in Leaves(x.c, MaxVals)}
             [] x.k = "list1" -> {Mk(BaseH, it) : it \in {y \in Lists1 : Len(y.e) = x.c}}
             [] x.k = "list2" -> {Mk(BaseH, it) : it \in Lists2 \cup {NONE}}
             [] x.k = "hdr"   -> {Mk(h, it) : h \in Headers, it \in {NONE, [c |-> 41, b |-> <<5>>]}}
             [] x.k = "sfw"   -> {Mk([BaseH EXCEPT !.s = x.c, !.f = f, !.w = w], NONE) : f \in 0..255, w \in {0, 1}}
             [] x.k = "sid"   -> {Mk([BaseH EXCEPT !.sid = sid], NONE) : sid \in 0..65535}
NoMsg == [kind |-> "pending"]
Init == input = <<>> /\ m = M0 /\ msg = NoMsg /\ sel \in Selectors
RTNext == msg = NoMsg /\ msg' \in Msgs(sel) /\ UNCHANGED <<sel, input, m>>
RTSpec == Init /\ [][RTNext]_rtvars

Valid(x) == ~(x.w = 1 /\ x.f % 2 = 0)
Bytes == EncMsg(msg)
\* C01: decoding the encoding succeeds, returns the message, and re-encoding is the identity
RoundTrip == (msg # NoMsg /\ Valid(msg)) => LET r == Machine(Bytes) IN r.ok /\ r.msg = msg /\ EncMsg(r.msg) = Bytes
GrammarAgrees == msg # NoMsg => DecMsg(Bytes) = Machine(Bytes)
InvalidRefused == (msg # NoMsg /\ ~Valid(msg)) => ~Machine(Bytes).ok
\* C02: the layout (E37 8.2, E5 9.2)
Layout == msg # NoMsg => LET b == Bytes  text == EncText(msg.item) IN
   /\ Len(b) = 14 + Len(text)
   /\ SubSeq(b, 1, 4) = BE4(Len(b) - 4)
   /\ b[5] * 256 + b[6] = msg.sid
   /\ b[7] = msg.w * 128 + msg.s /\ b[8] = msg.f /\ b[9] = 0 /\ b[10] = 0
   /\ SubSeq(b, 11, 14) = msg.sys
   /\ SubSeq(b, 15, Len(b)) = text
LenAtE(e, nl) == IF nl = 1 THEN e[2] ELSE IF nl = 2 THEN e[2] * 256 + e[3] ELSE e[2] * 65536 + e[3] * 256 + e[4]
RECURSIVE ItemLayout(_)
\* format byte = code * 4 + number of length bytes; shortest length; payload / children follow in order
ItemLayout(t) == LET e == EncItem(t)
                     cnt == IF t.c = 0 THEN Len(t.e) ELSE Len(t.b)
                     nl == e[1] % 4 IN
   /\ e[1] \div 4 = t.c
   /\ nl = (IF cnt <= 255 THEN 1 ELSE IF cnt <= 65535 THEN 2 ELSE 3)
   /\ LenAtE(e, nl) = cnt
   /\ IF t.c = 0 THEN /\ \A i \in 1..Len(t.e) : ItemLayout(t.e[i])
                      /\ SubSeq(e, 2 + nl, Len(e)) = FlattenSeq([i \in 1..Len(t.e) |-> EncItem(t.e[i])])
      ELSE SubSeq(e, 2 + nl, Len(e)) = t.b
ItemsLaidOut == (msg # NoMsg /\ msg.item # NONE) => ItemLayout(msg.item)
\* TLC -> Go: a sample of the scope as a case table (message and the bytes the specification demands)
Fp(x) == Len(EncMsg(x)) * 31 + x.s * 7 + x.f * 3 + x.sid
EmitCase == (msg # NoMsg /\ Valid(msg) /\ msg.item # NONE /\ Fp(msg) % EmitEvery = 0) =>
     PrintT("CASE " \o ToJson([msg |-> msg, bytes |-> Bytes]))
=====================================================================
