SPECIFICATION TSpec
INVARIANTS @INVS@
CHECK_DEADLOCK FALSE
