---------------------------- MODULE HsmsDecoder ----------------------------
(* The HSMS decoder of pkg/parser/hsms/parser.go as a cursor machine, one   *)
(* action per critical step of the code:                                    *)
(*   CheckLength   parseMessageLength (len >= 14, length field = bytes)     *)
(*   ReadHeader    parseMessage: PType, SType dispatch, control messages    *)
(*   ItemStep      one invocation of parseMessageText up to the recursion:  *)
(*                 format byte, length bytes (hook dec.item), then either   *)
(*                 open a list frame or read a leaf payload and deliver it  *)
(*   Finish        end-of-text check, message factory (W-bit rule)          *)
(* An implicit Go bounds panic is an explicit reject.  The Go recursion on  *)
(* lists is the explicit `stack` of frames [need, acc].                     *)
(* `alloc` counts element slots the code asks the allocator for, at the     *)
(* point where it asks (lists grow by append: two slots per element         *)
(* delivered, amortised; leaves allocate after the payload is known to be   *)
(* present).  The switches model defects the code had (all FALSE = the      *)
(* code as repaired); with one switched on TLC finds the counterexample.    *)
EXTENDS Secs2, TLC
CONSTANTS AsIsD1,   \* length accumulated as int(b << shift): only the last length byte counts
          AsIsD2,   \* non-empty binary items never decode
          AsIsD3,   \* no end-of-text check, control messages may carry text
          AsIsD4    \* element slots allocated by declared count before the bytes are seen

M0 == [pos |-> 0, stack |-> <<>>, alloc |-> 0, st |-> "length", top |-> NONE, hd |-> <<>>, log |-> <<>>]

\* hand a finished item to the enclosing list, closing every list that becomes complete
Deliver(m, item) ==
  LET RECURSIVE Up(_, _, _)
      Up(stack, it, a) == IF stack = <<>> THEN [stack |-> <<>>, top |-> it, a |-> a]
                          ELSE LET fr == stack[Len(stack)]  acc == Append(fr.acc, it) IN
                               IF Len(acc) = fr.need THEN Up(SubSeq(stack, 1, Len(stack) - 1), [c |-> 0, e |-> acc], a + 2)
                               ELSE [stack |-> [stack EXCEPT ![Len(stack)].acc = acc], top |-> NONE, a |-> a + 2]
      r == Up(m.stack, item, 0)
  IN [m EXCEPT !.stack = r.stack, !.top = r.top,
               !.alloc = @ + (IF AsIsD4 THEN 0 ELSE r.a),
               !.st = IF r.top # NONE THEN "finish" ELSE "item"]
Reject(m) == [m EXCEPT !.st = "reject"]

CheckLength(s, m) ==
  IF Len(s) < 14 \/ ~LengthFieldOK(s) THEN Reject(m) ELSE [m EXCEPT !.pos = 4, !.st = "header"]

ReadHeader(s, m) ==
  LET m1 == [m EXCEPT !.pos = 14] IN
  IF s[9] # 0 THEN Reject(m1)
  ELSE IF s[10] \in DefinedSType THEN
         (IF AsIsD3 \/ Len(s) = 14 THEN [m1 EXCEPT !.st = "accept", !.hd = [kind |-> "ctrl", hdr |-> SubSeq(s, 5, 14)]] ELSE Reject(m1))
  ELSE IF s[10] # 0 THEN Reject(m1)
  ELSE LET hd == [kind |-> "data", sid |-> s[5] * 256 + s[6], w |-> s[7] \div 128, s |-> s[7] % 128, f |-> s[8], sys |-> SubSeq(s, 11, 14)] IN
       IF Len(s) = 14 THEN [m1 EXCEPT !.st = "finish", !.hd = hd] ELSE [m1 EXCEPT !.st = "item", !.hd = hd]

ItemStep(s, m) ==
  LET p == m.pos IN
  IF p + 1 > Len(s) THEN Reject(m)
  ELSE LET code == s[p + 1] \div 4   nl == s[p + 1] % 4 IN
    IF nl = 0 \/ p + 1 + nl > Len(s) THEN Reject(m)
    ELSE LET full == IF nl = 1 THEN s[p + 2] ELSE IF nl = 2 THEN s[p + 2] * 256 + s[p + 3]
                     ELSE s[p + 2] * 65536 + s[p + 3] * 256 + s[p + 4]
             len == IF AsIsD1 THEN s[p + 1 + nl] ELSE full
             q == p + 1 + nl                                  \* bytes consumed after the item header
             m1 == [m EXCEPT !.pos = q, !.log = Append(@, [pos |-> q, code |-> code, nl |-> nl, len |-> len])] IN
      IF code = 0 THEN
           IF len = 0 THEN Deliver(m1, [c |-> 0, e |-> <<>>])
           ELSE [m1 EXCEPT !.stack = Append(@, [need |-> len, acc |-> <<>>]), !.alloc = @ + (IF AsIsD4 THEN len ELSE 0)]
      ELSE IF Width(code) = 0 THEN Reject(m1)
      ELSE LET m2 == IF AsIsD4 /\ code # 16 /\ len % Width(code) = 0 THEN [m1 EXCEPT !.alloc = @ + len \div Width(code)] ELSE m1 IN
           IF q + len > Len(s) \/ len % Width(code) # 0 THEN Reject(m2)
           ELSE LET b == SubSeq(s, q + 1, q + len) IN
                IF ~LeafOK(code, b) \/ (AsIsD2 /\ code = 8 /\ len > 0) THEN Reject(m2)
                ELSE Deliver([m2 EXCEPT !.pos = q + len, !.alloc = @ + (IF AsIsD4 THEN 0 ELSE len \div Width(code))],
                             [c |-> code, b |-> Canon(code, b)])

Finish(s, m) ==
  IF ~AsIsD3 /\ m.pos # Len(s) THEN Reject(m)
  ELSE IF m.hd.w = 1 /\ m.hd.f % 2 = 0 THEN Reject(m)          \* refused by the message factory
  ELSE [m EXCEPT !.st = "accept", !.hd = m.hd @@ [item |-> m.top]]

Final(m) == m.st \in {"accept", "reject"}
Step(s, m) == CASE m.st = "length" -> CheckLength(s, m)
                [] m.st = "header" -> ReadHeader(s, m)
                [] m.st = "item"   -> ItemStep(s, m)
                [] m.st = "finish" -> Finish(s, m)
RECURSIVE RunFrom(_, _)
RunFrom(s, m) == IF Final(m) THEN m ELSE RunFrom(s, Step(s, m))
Run(s) == RunFrom(s, M0)
\* the machine's result in the shape of Secs2!DecMsg
OutOf(m) == IF m.st = "accept" THEN [ok |-> TRUE, msg |-> m.hd] ELSE [ok |-> FALSE]
Machine(s) == OutOf(Run(s))

\* ------------------------------------------------------------------ as a transition system
VARIABLES input, m
vars == <<input, m>>
Next == ~Final(m) /\ m' = Step(input, m) /\ UNCHANGED input
\* termination measure: strictly decreasing on every step
Rank(st) == CASE st = "length" -> 3 [] st = "header" -> 2 [] st = "item" -> 1 [] st = "finish" -> 1 [] OTHER -> 0
RECURSIVE Pending(_)
Pending(stack) == IF stack = <<>> THEN 0 ELSE (Head(stack).need - Len(Head(stack).acc)) + Pending(Tail(stack))

\* ------------------------------------------------------------------ properties of the machine
\* C03: accepts exactly the well-formed messages and denotes exactly those bytes
AgreesWithGrammar == Final(m) => OutOf(m) = DecMsg(input)
\* C07: never reads past the end
InBounds == m.pos <= Len(input) \/ (AsIsD3 /\ m.st = "reject")
\* C07: every slot requested is paid for by input bytes already consumed
Linear == m.alloc <= 2 * m.pos
\* C13: every length field is read as the big-endian value of all its length bytes
LengthsReadExactly == \A i \in 1..Len(m.log) : LET e == m.log[i] IN
      e.len = (IF e.nl = 1 THEN input[e.pos] ELSE IF e.nl = 2 THEN input[e.pos - 1] * 256 + input[e.pos]
               ELSE input[e.pos - 2] * 65536 + input[e.pos - 1] * 256 + input[e.pos])
\* C07 on measured runs: total bytes allocated while decoding an input of n bytes stay below a fixed
\* linear function (kilobytes; honest inputs need about 0.5 KB per input byte - every 3-byte <U1 x> of a
\* list becomes a node with its own slice and map)
AllocBoundKB(n) == 4 * n + 64
Progress == [][m'.pos >= m.pos /\ (m'.pos > m.pos \/ Rank(m'.st) < Rank(m.st) \/ Len(m'.stack) > Len(m.stack) \/ Final(m'))]_vars
=====================================================================
