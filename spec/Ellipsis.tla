---------------------------- MODULE Ellipsis ----------------------------
(* Ellipsis expansion (pkg/ast/list.go:261-431), twice:                     *)
(*  - Expand / Spec: the documented semantics, declaratively - filling an   *)
(*    ellipsis with n repeats the items before it n+1 times, copy j gets    *)
(*    the suffix [j] (only when n > 0) after the suffixes of enclosing      *)
(*    expanded ellipses, nested ellipses expand in every copy, unfilled     *)
(*    ellipses are renumbered in order of appearance;                       *)
(*  - Machine: the code's fillState machine - dimension stack, running      *)
(*    index per dimension, ellipsis counter, the i = 0 restart - with a     *)
(*    log of its steps in the format of the verif hook events               *)
(*    (growDimension, growIndex, exitDimension, newName).                   *)
(* Items are value-level items of module Items.  cnt is a sequence of       *)
(* [k |-> ellipsis name, n |-> count].                                      *)
EXTENDS Items

Count(cnt, name) == LET I == {i \in 1..Len(cnt) : cnt[i].k = name} IN
                    IF I = {} THEN -1 ELSE cnt[CHOOSE i \in I : TRUE].n
EllPos(x) == LET I == {i \in 1..Len(x.e) : IsEllEl(x.e[i])} IN IF I = {} THEN 0 ELSE CHOOSE i \in I : TRUE
SufChars(suf) == FlattenSeq([i \in 1..Len(suf) |-> <<91>> \o DecChars(suf[i]) \o <<93>>])

\* ------------------------------------------------------------------ declarative semantics
\* append the suffix to every variable name of a non-list element
AddSuf(el, suf) ==
  IF IsVarEl(el) THEN [var |-> el.var \o SufChars(suf)]
  ELSE IF IsEllEl(el) THEN el
  ELSE IF el.f = "A" THEN (IF "var" \in DOMAIN el THEN [el EXCEPT !.var = @ \o SufChars(suf)] ELSE el)
  ELSE [el EXCEPT !.e = [i \in 1..Len(el.e) |-> IF "var" \in DOMAIN el.e[i] THEN [var |-> el.e[i].var \o SufChars(suf)] ELSE el.e[i]]]
RECURSIVE Expand(_, _, _), ExpandSeq(_, _, _), Copies(_, _, _, _, _)
ExpandSeq(es, cnt, suf) ==
  IF es = <<>> THEN <<>>
  ELSE LET h == Head(es) IN
       (IF IsItem(h) /\ h.f = "L" THEN <<Expand(h, cnt, suf)>> ELSE <<AddSuf(h, suf)>>) \o ExpandSeq(Tail(es), cnt, suf)
Copies(before, cnt, suf, j, n) ==
  IF j > n THEN <<>>
  ELSE ExpandSeq(before, cnt, IF n > 0 THEN Append(suf, j) ELSE suf) \o Copies(before, cnt, suf, j + 1, n)
Expand(t, cnt, suf) ==
  LET ep == EllPos(t)
      n == IF ep = 0 THEN -1 ELSE Count(cnt, EllName(t.e[ep].ell)) IN
  IF n < 0 THEN [f |-> "L", e |-> ExpandSeq(t.e, cnt, suf)]
  ELSE [f |-> "L", e |-> Copies(SubSeq(t.e, 1, ep - 1), cnt, suf, 0, n) \o ExpandSeq(SubSeq(t.e, ep + 1, Len(t.e)), cnt, suf)]
\* ellipses of a tree in order of appearance
RECURSIVE Ells(_)
Ells(t) == FlattenSeq([i \in 1..Len(t.e) |-> IF IsEllEl(t.e[i]) THEN <<t.e[i].ell>>
                                              ELSE IF IsItem(t.e[i]) /\ t.e[i].f = "L" THEN Ells(t.e[i]) ELSE <<>>])
\* renumber the remaining ellipses 0, 1, ... in order of appearance (a single one is plain "...", number -1)
RECURSIVE Renum(_, _, _)
Renum(t, c, single) ==
  LET RECURSIVE Go(_, _, _)
      Go(es, k, acc) == IF es = <<>> THEN [e |-> acc, next |-> k]
                        ELSE LET h == Head(es) IN
                             IF IsEllEl(h) THEN Go(Tail(es), k + 1, Append(acc, [ell |-> IF single THEN -1 ELSE k]))
                             ELSE IF IsItem(h) /\ h.f = "L" THEN LET r == Renum(h, k, single) IN Go(Tail(es), r.next, Append(acc, r.t))
                             ELSE Go(Tail(es), k, Append(acc, h))
      r == Go(t.e, c, <<>>)
  IN [t |-> [f |-> "L", e |-> r.e], next |-> r.next]
\* does the assignment mention an ellipsis of the tree at all?  (if not, nothing is expanded or renamed)
Mentions(t, cnt) == \E i \in 1..Len(Ells(t)) : Count(cnt, EllName(Ells(t)[i])) >= 0
Spec(t, cnt) == IF ~Mentions(t, cnt) THEN t
                ELSE LET x == Expand(t, cnt, <<>>) IN Renum(x, 0, Len(Ells(x)) = 1).t
\* the same tree with its remaining ellipses numbered as if there were several (the code sometimes numbers a
\* single remaining ellipsis ...[0]: the property leaves that free)
SpecNumbered(t, cnt) == IF ~Mentions(t, cnt) THEN t ELSE Renum(Expand(t, cnt, <<>>), 0, FALSE).t

\* ------------------------------------------------------------------ the code's machine
\* ellipsisAnalysis: (to fill, remaining); the multiplier of the node's own ellipsis is applied to all its
\* child lists, also those behind the ellipsis, so `remaining` may be over-counted
RECURSIVE Analysis(_, _)
Analysis(t, cnt) ==
  LET ep == EllPos(t)
      n == IF ep = 0 THEN -1 ELSE Count(cnt, EllName(t.e[ep].ell))
      own == IF ep = 0 THEN <<0, 0>> ELSE IF n >= 0 THEN <<1, 0>> ELSE <<0, 1>>
      mult == (IF n >= 0 THEN n ELSE 0) + 1
      RECURSIVE Sum(_, _)
      Sum(i, acc) == IF i > Len(t.e) THEN acc
                     ELSE IF IsItem(t.e[i]) /\ t.e[i].f = "L"
                          THEN LET a == Analysis(t.e[i], cnt) IN Sum(i + 1, <<acc[1] + mult * a[1], acc[2] + mult * a[2]>>)
                          ELSE Sum(i + 1, acc)
  IN Sum(1, own)
St0(multiple) == [dim |-> 0, idx |-> <<>>, ecount |-> 0, multiple |-> multiple, log |-> <<>>]
Ev(op, st, old, new) == [op |-> op, dim |-> st.dim, idx |-> st.idx, ecount |-> st.ecount, old |-> old, new |-> new]
GrowDim(st) == LET s == [st EXCEPT !.idx = IF st.dim = Len(st.idx) THEN Append(st.idx, 0) ELSE [st.idx EXCEPT ![st.dim + 1] = 0],
                                   !.dim = st.dim + 1] IN [s EXCEPT !.log = Append(@, Ev("growDimension", s, <<>>, <<>>))]
GrowIndex(st) == LET s == [st EXCEPT !.idx[st.dim] = @ + 1] IN [s EXCEPT !.log = Append(@, Ev("growIndex", s, <<>>, <<>>))]
ExitDim(st) == LET s == [st EXCEPT !.dim = @ - 1] IN [s EXCEPT !.log = Append(@, Ev("exitDimension", s, <<>>, <<>>))]
\* getNewVariableName: [name, st]
NewName(st, name) ==
  IF IsEllipsisName(name) THEN
       IF st.multiple THEN LET nm == EllName(st.ecount)  s == [st EXCEPT !.ecount = @ + 1] IN
                           [name |-> nm, st |-> [s EXCEPT !.log = Append(@, Ev("newName", s, name, nm))]]
       ELSE [name |-> EllName(-1), st |-> [st EXCEPT !.log = Append(@, Ev("newName", st, name, EllName(-1)))]]
  ELSE LET nm == name \o SufChars(SubSeq(st.idx, 1, st.dim)) IN
       [name |-> nm, st |-> [st EXCEPT !.log = Append(@, Ev("newName", st, name, nm))]]
EllOfName(nm) == IF Len(nm) = 3 THEN -1
                 ELSE LET RECURSIVE D(_, _)
                          D(i, acc) == IF nm[i] = 93 THEN acc ELSE D(i + 1, acc * 10 + (nm[i] - 48))
                      IN D(5, 0)
\* rename every variable of an array item, in position order
RenameArray(el, st) ==
  LET RECURSIVE Go(_, _, _)
      Go(i, acc, s) == IF i > Len(el.e) THEN [el |-> [el EXCEPT !.e = acc], st |-> s]
                       ELSE IF "var" \in DOMAIN el.e[i] THEN LET r == NewName(s, el.e[i].var) IN Go(i + 1, Append(acc, [var |-> r.name]), r.st)
                       ELSE Go(i + 1, Append(acc, el.e[i]), s)
  IN Go(1, <<>>, st)
RECURSIVE FillEll(_, _, _)
\* fillEllipsis: [t, st]
FillEll(node, cnt, st) ==
  LET ep == EllPos(node)
      n == IF ep = 0 THEN -1 ELSE Count(cnt, EllName(node.e[ep].ell))
      epos == IF n >= 0 THEN ep ELSE 0                        \* 1-based position of an ellipsis to fill, else 0
      eval == IF n >= 0 THEN n ELSE 0
      st1 == IF epos # 0 /\ eval > 0 THEN GrowDim(st) ELSE st
      RECURSIVE Loop(_, _, _), Item(_, _, _)
      \* handle the element at position i, then go on with i + 1
      Item(i, out, s) ==
        LET el == node.e[i] IN
        IF IsItem(el) /\ el.f = "L" THEN LET r == FillEll(el, cnt, s) IN Loop(i + 1, Append(out, r.t), r.st)
        ELSE IF IsVarEl(el) THEN LET r == NewName(s, el.var) IN Loop(i + 1, Append(out, [var |-> r.name]), r.st)
        ELSE IF IsEllEl(el) THEN LET r == NewName(s, EllName(el.ell)) IN Loop(i + 1, Append(out, [ell |-> EllOfName(r.name)]), r.st)
        ELSE IF el.f = "A" THEN (IF "var" \in DOMAIN el THEN LET r == NewName(s, el.var) IN Loop(i + 1, Append(out, [el EXCEPT !.var = r.name]), r.st)
                                 ELSE Loop(i + 1, Append(out, el), s))
        ELSE IF \E k \in 1..Len(el.e) : "var" \in DOMAIN el.e[k] THEN LET r == RenameArray(el, s) IN Loop(i + 1, Append(out, r.el), r.st)
        ELSE Loop(i + 1, Append(out, el), s)
      Loop(i, out, s) ==
        IF i > Len(node.e) THEN [t |-> [f |-> "L", e |-> out], st |-> s]
        ELSE IF i = epos THEN
             IF eval = 0 THEN Loop(i + 1, out, s)
             ELSE IF s.idx[s.dim] < eval THEN Item(1, out, GrowIndex(s))      \* repeat: i = 0 and fall through
             ELSE Loop(i + 1, out, ExitDim(s))
        ELSE Item(i, out, s)
  IN Loop(1, <<>>, st1)
\* ListNode.FillVariables restricted to ellipsis keys: [t, log]
Machine(t, cnt) ==
  LET a == Analysis(t, cnt) IN
  IF a[1] = 0 THEN [t |-> t, log |-> <<>>]
  ELSE LET r == FillEll(t, cnt, St0(a[2] > 1)) IN [t |-> r.t, log |-> r.st.log, dim |-> r.st.dim]
=====================================================================
