---------------------------- MODULE MCEllipsis ----------------------------
(* C10 at model level: for every list template of a bounded scope and       *)
(* every partial or total assignment of repeat counts, the code's fillState *)
(* machine computes the documented expansion; names stay unique; the        *)
(* dimension stack is balanced.                                             *)
(* Scope: lists of up to MaxItems leaves (list-level variable, array item   *)
(* with one and with two variables, ASCII variable, constant), nested one   *)
(* level (up to 2 elements at the top), an ellipsis at any position after   *)
(* the first in every list, counts 0..MaxCount.                             *)
EXTENDS Ellipsis, TLC, Json
CONSTANTS MaxItems, MaxCount, EmitEvery
VarEl(b) == [var |-> b]
Leaves == { VarEl(<<118>>),
            [f |-> "U1", e |-> <<[var |-> <<110>>]>>],
            [f |-> "I2", e |-> <<[var |-> <<112>>], [neg |-> FALSE, dec |-> <<5>>], [var |-> <<113>>]>>],
            [f |-> "A", var |-> <<97>>, lo |-> [neg |-> FALSE, dec |-> <<1>>], hi |-> [neg |-> TRUE, dec |-> <<1>>]],
            [f |-> "BOOLEAN", e |-> <<[t |-> TRUE]>>] }
\* make names unique: append a running number to every variable name, in order of appearance
RECURSIVE Uniq(_, _)
Uniq(t, c) ==
  LET RECURSIVE Go(_, _, _)
      Go(es, k, acc) ==
        IF es = <<>> THEN [e |-> acc, next |-> k]
        ELSE LET h == Head(es) IN
             IF IsVarEl(h) THEN Go(Tail(es), k + 1, Append(acc, [var |-> h.var \o DecChars(k)]))
             ELSE IF IsEllEl(h) THEN Go(Tail(es), k, Append(acc, h))
             ELSE IF h.f = "L" THEN LET r == Uniq(h, k) IN Go(Tail(es), r.next, Append(acc, r.t))
             ELSE IF h.f = "A" THEN (IF "var" \in DOMAIN h THEN Go(Tail(es), k + 1, Append(acc, [h EXCEPT !.var = @ \o DecChars(k)]))
                                     ELSE Go(Tail(es), k, Append(acc, h)))
             ELSE LET nv == Cardinality({i \in 1..Len(h.e) : "var" \in DOMAIN h.e[i]})
                      RECURSIVE Ren(_, _, _)
                      Ren(i, kk, a) == IF i > Len(h.e) THEN a
                                       ELSE IF "var" \in DOMAIN h.e[i] THEN Ren(i + 1, kk + 1, Append(a, [var |-> h.e[i].var \o DecChars(kk)]))
                                       ELSE Ren(i + 1, kk, Append(a, h.e[i]))
                  IN Go(Tail(es), k + nv, Append(acc, [h EXCEPT !.e = Ren(1, k, <<>>)]))
      r == Go(t.e, c, <<>>)
  IN [t |-> [f |-> "L", e |-> r.e], next |-> r.next]
SeqsUpTo(S, n) == UNION {[1..k -> S] : k \in 1..n}
WithEll(es) == {es} \cup {InsertAt(es, p, [ell |-> 0]) : p \in 2..(Len(es) + 1)}
L(es) == [f |-> "L", e |-> es]
Lists0 == UNION {WithEll(es) : es \in SeqsUpTo(Leaves, MaxItems)}
TopElems == Leaves \cup {L(x) : x \in Lists0}
\* the state holds the raw element sequence; numbering ellipses and making names unique is done per state
VARIABLES raw, cnt, tmpl
MkTmpl(r) == Uniq(Renum(L(r), 0, FALSE).t, 0).t
Assignments(t) == LET ids == {Ells(t)[i] : i \in 1..Len(Ells(t))}
                      Fs == UNION {[S -> 0..MaxCount] : S \in SUBSET ids}
                  IN {SetToSeq({[k |-> EllName(i), n |-> f[i]] : i \in DOMAIN f}) : f \in Fs}
NoCnt == <<[k |-> <<>>, n |-> -9]>>
Init == /\ \E k \in 1..2 : \E es \in [1..k -> TopElems] : raw \in WithEll(es)
        /\ cnt = NoCnt /\ tmpl = L(<<>>)
Next == /\ cnt = NoCnt /\ UNCHANGED raw
        /\ LET t == MkTmpl(raw) IN tmpl' = t /\ cnt' \in Assignments(t)
MSpec == Init /\ [][Next]_<<raw, cnt, tmpl>>
NormE(t) == t     \* templates and results of this scope are already in normal form
Correct == cnt # NoCnt =>
   LET r == Machine(tmpl, cnt) IN
   /\ r.t = Spec(tmpl, cnt) \/ r.t = SpecNumbered(tmpl, cnt)      \* the documented expansion (a single remaining
                                                                   \* ellipsis may be numbered ...[0])
   /\ NoDup(Vars(r.t))                                            \* names stay unique
   /\ ("dim" \in DOMAIN r => r.dim = 0)                           \* every dimension entered is left again
\* every generated name can be filled individually: substituting it removes exactly that name
Fillable == cnt # NoCnt =>
   LET r == Spec(tmpl, cnt)  vs == Vars(r) IN
   \A i \in 1..Len(vs) : ~IsEllipsisName(vs[i]) =>
        Vars(Subst(r, <<[k |-> vs[i], v |-> [neg |-> FALSE, dec |-> <<1>>, s |-> <<120>>, f |-> "U1", e |-> <<>>]]>>))
          = SelectSeq(vs, LAMBDA nm : nm # vs[i])
RECURSIVE H(_)
H(x) == IF IsVarEl(x) THEN Len(x.var) * 7 + 3 ELSE IF IsEllEl(x) THEN 11 + x.ell
        ELSE IF x.f = "L" THEN LET RECURSIVE F(_, _)
                                   F(i, acc) == IF i > Len(x.e) THEN acc ELSE F(i + 1, (acc * 31 + H(x.e[i])) % 9973)
                               IN F(1, 7)
        ELSE IF x.f = "A" THEN 17 ELSE 19 + Len(x.e)
RECURSIVE HC(_, _)
HC(c, acc) == IF c = <<>> THEN acc ELSE HC(Tail(c), (acc * 13 + Head(c).n + 5 * Len(Head(c).k)) % 9973)
Fp(t, c) == (H(t) * 17 + HC(c, 1)) % 9973
EmitCase == (cnt # NoCnt /\ Len(Ells(tmpl)) >= 1 /\ Fp(tmpl, cnt) % EmitEvery = 0) =>
   PrintT("CASE " \o ToJson([tmpl |-> tmpl, cnt |-> cnt, want |-> Spec(tmpl, cnt)]))
=====================================================================
