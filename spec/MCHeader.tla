---------------------------- MODULE MCHeader ----------------------------
(* C13 on the specification itself: for every format and every element      *)
(* count 0 .. max+16 the item header is well formed - it names the format,  *)
(* uses one length byte up to 255 payload bytes, two up to 65,535, three    *)
(* beyond, the length bytes read back as count * width - and an item is     *)
(* constructible iff count * width <= 16,777,215.  Sizes are visited in     *)
(* blocks so that TLC's workers share the sweep; Stride > 1 thins it out.   *)
EXTENDS Secs2, TLC
CONSTANTS Block, Stride
VARIABLES c, blk
MaxCount(cc) == MaxBytes \div Width(cc)
Blocks(cc) == 0..((MaxCount(cc) + 16) \div Block)
Init == c \in Codes /\ blk = -1
Next == blk = -1 /\ blk' \in Blocks(c) /\ UNCHANGED c
Spec == Init /\ [][Next]_<<c, blk>>
HeaderOK(cc, n) ==
  LET w == Width(cc)  bytes == n * w IN
  IF bytes > MaxBytes THEN ~Constructible(cc, n)
  ELSE LET h == ItemHeader(cc, n)  nl == h[1] % 4 IN
       /\ Constructible(cc, n)
       /\ h[1] \div 4 = cc /\ Len(h) = 1 + nl
       /\ nl = (IF bytes <= 255 THEN 1 ELSE IF bytes <= 65535 THEN 2 ELSE 3)
       /\ (IF nl = 1 THEN h[2] ELSE IF nl = 2 THEN h[2] * 256 + h[3] ELSE h[2] * 65536 + h[3] * 256 + h[4]) = bytes
       /\ \A i \in 2..Len(h) : h[i] \in 0..255
\* the sizes of a block, thinned by Stride; the sizes next to every breakpoint are always visited (block 0)
BlockOK == blk >= 0 =>
   /\ \A k \in 0..((Block - 1) \div Stride) :
         LET n == blk * Block + k * Stride IN n <= MaxCount(c) + 16 => HeaderOK(c, n)
   /\ blk = 0 => \A bp \in {255, 256, 65535, 65536, MaxBytes}, d \in -3..3 :
         LET n == bp \div Width(c) + d IN n >= 0 => HeaderOK(c, n)
=====================================================================
