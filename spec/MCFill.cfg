SPECIFICATION Spec
INVARIANTS Composes VarsLaw
CHECK_DEADLOCK FALSE
