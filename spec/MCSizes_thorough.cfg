SPECIFICATION SizeSpec
CONSTANTS
  MaxB = 5
  MaxN = 6
  AsIsD10 = FALSE
  AsIsD12 = FALSE
INVARIANTS Agrees EmitCase
CHECK_DEADLOCK FALSE
