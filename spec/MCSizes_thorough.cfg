SPECIFICATION SizeSpec
CONSTANTS
  MaxB = 7
  MaxN = 8
  AsIsD10 = FALSE
  AsIsD12 = FALSE
INVARIANTS Agrees EmitCase
CHECK_DEADLOCK FALSE
