---------------------------- MODULE HsmsSession ----------------------------
EXTENDS Integers, Sequences, FiniteSets, TLC, Json
\* Growth sketch: two HSMS entities (SEMI E37, single session) exchanging the library's messages.
\* A message is its 10-byte header as a record; data messages also carry an abstract item tag.
\* Every Send is to be executed with the library's constructors + ToBytes, every Recv with
\* hsms.Parse + Type(); the replayer compares the decoded header with the record.
CONSTANTS MaxSys,      \* system-bytes values 1..MaxSys are available per entity (transaction ids)
          MaxChan,     \* channel capacity
          Depth        \* 0: no history (exhaustive runs); n > 0: behaviours of n steps are printed as CASE lines (simulation)
Ent == {"H", "E"}
Peer(e) == IF e = "H" THEN "E" ELSE "H"
VARIABLES st,       \* st[e] \in {"NOT_CONNECTED", "NOT_SELECTED", "SELECTED"}
          chan,     \* chan[e] = messages in flight towards e (FIFO)
          open,     \* open[e] = set of [kind, sys] transactions e is waiting on
          nextSys,  \* next unused system-bytes value per entity
          delivered, \* data messages handed to the application at e, with the state they were accepted in
          hist       \* the behaviour so far (simulation only; hidden from exhaustive runs by the VIEW)
vars == <<st, chan, open, nextSys, delivered, hist>>
View == <<st, chan, open, nextSys, delivered>>
NoMsg == [sid |-> -1, b2 |-> 0, b3 |-> 0, ptype |-> 0, stype |-> 0, sys |-> <<0, 0>>]
Log(act, e, m, r) == hist' = IF Depth = 0 THEN hist ELSE Append(hist, [act |-> act, e |-> e, msg |-> m, reply |-> r])

\* header layout per pkg/ast/hsms.go: sid, byte2, byte3, ptype, stype, sys
Ctrl(stype, sid, b2, b3, sys) == [sid |-> sid, b2 |-> b2, b3 |-> b3, ptype |-> 0, stype |-> stype, sys |-> sys]
SelectReq(sys)         == Ctrl(1, 65535, 0, 0, sys)
SelectRsp(req, status) == Ctrl(2, req.sid, 0, status, req.sys)
DeselectReq(sys)       == Ctrl(3, 65535, 0, 0, sys)
DeselectRsp(req, status) == Ctrl(4, req.sid, 0, status, req.sys)
LinktestReq(sys)       == Ctrl(5, 65535, 0, 0, sys)
LinktestRsp(req)       == Ctrl(6, 65535, 0, 0, req.sys)
RejectReq(m, reason)   == Ctrl(7, m.sid, IF reason = 2 THEN m.ptype ELSE m.stype, reason, m.sys)
SeparateReq(sys)       == Ctrl(9, 65535, 0, 0, sys)
Data(s, f, w, sys)     == [sid |-> 0, b2 |-> w * 128 + s, b3 |-> f, ptype |-> 0, stype |-> 0, sys |-> sys]
Junk(ptype, stype, sys) == [sid |-> 0, b2 |-> 0, b3 |-> 0, ptype |-> ptype, stype |-> stype, sys |-> sys]

TypeOf(m) == IF m.ptype # 0 THEN "undefined"
             ELSE CASE m.stype = 0 -> "data message" [] m.stype = 1 -> "select.req" [] m.stype = 2 -> "select.rsp"
                    [] m.stype = 3 -> "deselect.req" [] m.stype = 4 -> "deselect.rsp" [] m.stype = 5 -> "linktest.req"
                    [] m.stype = 6 -> "linktest.rsp" [] m.stype = 7 -> "reject.req" [] m.stype = 9 -> "separate.req"
                    [] OTHER -> "undefined"

Init == /\ st = [e \in Ent |-> "NOT_CONNECTED"] /\ chan = [e \in Ent |-> <<>>]
        /\ open = [e \in Ent |-> {}] /\ nextSys = [e \in Ent |-> 1] /\ delivered = [e \in Ent |-> <<>>]
        /\ hist = <<>>

CanSend(e) == st[e] # "NOT_CONNECTED" /\ Len(chan[Peer(e)]) < MaxChan
Send(e, m) == chan' = [chan EXCEPT ![Peer(e)] = Append(@, m)]
Fresh(e) == nextSys[e] <= MaxSys
Sys(e) == <<IF e = "H" THEN 1 ELSE 2, nextSys[e]>>        \* distinct per entity

Connect == /\ \A e \in Ent : st[e] = "NOT_CONNECTED"
           /\ st' = [e \in Ent |-> "NOT_SELECTED"]
           /\ UNCHANGED <<chan, open, nextSys, delivered>> /\ Log("Connect", "", NoMsg, [m |-> NoMsg, sent |-> FALSE])
Disconnect == /\ \E e \in Ent : st[e] # "NOT_CONNECTED"        \* TCP loss or any T-timeout
              /\ st' = [e \in Ent |-> "NOT_CONNECTED"] /\ chan' = [e \in Ent |-> <<>>] /\ open' = [e \in Ent |-> {}]
              /\ UNCHANGED <<nextSys, delivered>> /\ Log("Disconnect", "", NoMsg, [m |-> NoMsg, sent |-> FALSE])

Request(e, kind, msg) == /\ CanSend(e) /\ Fresh(e) /\ Send(e, msg)
                         /\ open' = [open EXCEPT ![e] = @ \cup {[kind |-> kind, sys |-> msg.sys]}]
                         /\ nextSys' = [nextSys EXCEPT ![e] = @ + 1]
                         /\ UNCHANGED <<st, delivered>> /\ Log("Send", e, msg, [m |-> NoMsg, sent |-> FALSE])
SendSelect(e)   == st[e] = "NOT_SELECTED" /\ (~\E t \in open[e] : t.kind = "select") /\ Request(e, "select", SelectReq(Sys(e)))
SendDeselect(e) == st[e] = "SELECTED" /\ (~\E t \in open[e] : t.kind = "deselect") /\ Request(e, "deselect", DeselectReq(Sys(e)))
SendLinktest(e) == (~\E t \in open[e] : t.kind = "linktest") /\ Request(e, "linktest", LinktestReq(Sys(e)))
SendPrimary(e)  == \E w \in {0, 1} : IF w = 1 THEN Request(e, "data", Data(1, 1, 1, Sys(e)))       \* any state: an entity may misbehave
                                     ELSE /\ CanSend(e) /\ Fresh(e) /\ Send(e, Data(1, 1, 0, Sys(e)))
                                          /\ Log("Send", e, Data(1, 1, 0, Sys(e)), [m |-> NoMsg, sent |-> FALSE])
                                          /\ nextSys' = [nextSys EXCEPT ![e] = @ + 1] /\ UNCHANGED <<st, open, delivered>>
SendSeparate(e) == /\ st[e] = "SELECTED" /\ CanSend(e) /\ Fresh(e) /\ Send(e, SeparateReq(Sys(e)))
                   /\ Log("Send", e, SeparateReq(Sys(e)), [m |-> NoMsg, sent |-> FALSE])
                   /\ st' = [st EXCEPT ![e] = "NOT_SELECTED"] /\ nextSys' = [nextSys EXCEPT ![e] = @ + 1]
                   /\ UNCHANGED <<open, delivered>>
SendJunk(e) == /\ CanSend(e) /\ Fresh(e) /\ \E j \in {Junk(0, 8, Sys(e)), Junk(1, 0, Sys(e))} : (Send(e, j) /\ Log("Send", e, j, [m |-> NoMsg, sent |-> FALSE]))
               /\ nextSys' = [nextSys EXCEPT ![e] = @ + 1] /\ UNCHANGED <<st, open, delivered>>

Close(e, kind, sys) == open' = [open EXCEPT ![e] = {t \in @ : ~(t.kind = kind /\ t.sys = sys)}]
HasOpen(e, kind, sys) == [kind |-> kind, sys |-> sys] \in open[e]
\* reply (possibly none) and local effects of receiving m at e
Recv(e) ==
  /\ chan[e] # <<>>
  /\ LET m == Head(chan[e])
         ty == TypeOf(m)
         rest == [chan EXCEPT ![e] = Tail(@)]
         Reply(r) == /\ IF Len(rest[Peer(e)]) < MaxChan THEN chan' = [rest EXCEPT ![Peer(e)] = Append(@, r)] ELSE chan' = rest  \* full pipe = loss (T-timeout follows)
                     /\ Log("Recv", e, m, [m |-> r, sent |-> Len(rest[Peer(e)]) < MaxChan])
         NoReply == chan' = rest /\ Log("Recv", e, m, [m |-> NoMsg, sent |-> FALSE])
     IN CASE ty = "select.req" ->
               /\ Reply(SelectRsp(m, IF st[e] = "NOT_SELECTED" THEN 0 ELSE 1))
               /\ st' = [st EXCEPT ![e] = "SELECTED"] /\ UNCHANGED <<open, nextSys, delivered>>
          [] ty = "select.rsp" ->
               IF HasOpen(e, "select", m.sys)
               THEN /\ NoReply /\ Close(e, "select", m.sys)
                    /\ st' = [st EXCEPT ![e] = IF m.b3 = 0 THEN "SELECTED" ELSE @] /\ UNCHANGED <<nextSys, delivered>>
               ELSE Reply(RejectReq(m, 3)) /\ UNCHANGED <<st, open, nextSys, delivered>>
          [] ty = "deselect.req" ->
               /\ Reply(DeselectRsp(m, IF st[e] = "SELECTED" THEN 0 ELSE 1))
               /\ st' = [st EXCEPT ![e] = "NOT_SELECTED"] /\ UNCHANGED <<open, nextSys, delivered>>
          [] ty = "deselect.rsp" ->
               IF HasOpen(e, "deselect", m.sys)
               THEN /\ NoReply /\ Close(e, "deselect", m.sys)
                    /\ st' = [st EXCEPT ![e] = IF m.b3 = 0 THEN "NOT_SELECTED" ELSE @] /\ UNCHANGED <<nextSys, delivered>>
               ELSE Reply(RejectReq(m, 3)) /\ UNCHANGED <<st, open, nextSys, delivered>>
          [] ty = "linktest.req" -> Reply(LinktestRsp(m)) /\ UNCHANGED <<st, open, nextSys, delivered>>
          [] ty = "linktest.rsp" ->
               IF HasOpen(e, "linktest", m.sys) THEN NoReply /\ Close(e, "linktest", m.sys) /\ UNCHANGED <<st, nextSys, delivered>>
               ELSE Reply(RejectReq(m, 3)) /\ UNCHANGED <<st, open, nextSys, delivered>>
          [] ty = "separate.req" -> NoReply /\ st' = [st EXCEPT ![e] = "NOT_SELECTED"] /\ UNCHANGED <<open, nextSys, delivered>>
          [] ty = "reject.req" -> NoReply /\ open' = [open EXCEPT ![e] = {t \in @ : t.sys # m.sys}] /\ UNCHANGED <<st, nextSys, delivered>>
          [] ty = "data message" ->
               IF st[e] # "SELECTED" THEN Reply(RejectReq(m, 4)) /\ UNCHANGED <<st, open, nextSys, delivered>>
               ELSE IF m.b3 % 2 = 1                                  \* primary
                    THEN /\ (IF m.b2 >= 128 THEN Reply(Data(m.b2 % 128, m.b3 + 1, 0, m.sys)) ELSE NoReply)
                         /\ delivered' = [delivered EXCEPT ![e] = Append(@, [m |-> m, in |-> st[e]])]
                         /\ UNCHANGED <<st, open, nextSys>>
                    ELSE /\ NoReply                                   \* secondary: closes the data transaction if any
                         /\ open' = [open EXCEPT ![e] = {t \in @ : ~(t.kind = "data" /\ t.sys = m.sys)}]
                         /\ delivered' = [delivered EXCEPT ![e] = Append(@, [m |-> m, in |-> st[e]])]
                         /\ UNCHANGED <<st, nextSys>>
          [] OTHER ->                                                  \* undefined: PType first, then SType
               Reply(RejectReq(m, IF m.ptype # 0 THEN 2 ELSE 1)) /\ UNCHANGED <<st, open, nextSys, delivered>>

Next == (Depth = 0 \/ Len(hist) < Depth) /\ (Connect \/ Disconnect
        \/ \E e \in Ent : SendSelect(e) \/ SendDeselect(e) \/ SendLinktest(e) \/ SendPrimary(e) \/ SendSeparate(e) \/ SendJunk(e) \/ Recv(e))
Spec == Init /\ [][Next]_vars

\* ---------- properties ----------
AllMsgs == UNION {{chan[e][i] : i \in 1..Len(chan[e])} : e \in Ent}
TypeOK == /\ st \in [Ent -> {"NOT_CONNECTED", "NOT_SELECTED", "SELECTED"}]
          /\ \A e \in Ent : Len(chan[e]) <= MaxChan
NothingInFlightWhenDown == (\A e \in Ent : st[e] = "NOT_CONNECTED") => \A e \in Ent : chan[e] = <<>> /\ open[e] = {}
BothOrNeitherConnected == (st["H"] = "NOT_CONNECTED") <=> (st["E"] = "NOT_CONNECTED")
DataOnlyWhenSelected == \A e \in Ent : \A i \in 1..Len(delivered[e]) : delivered[e][i].in = "SELECTED"
\* every response in flight answers a request that its addressee issued (transaction ids are echoed and unique)
ResponsesEcho == \A e \in Ent : \A i \in 1..Len(chan[e]) :
                   LET m == chan[e][i] IN TypeOf(m) \in {"select.rsp", "deselect.rsp", "linktest.rsp"} => m.sys[1] = (IF e = "H" THEN 1 ELSE 2)
\* a reject carries a defined reason and, for reason 2, the offending PType (the system bytes are those of the
\* rejected message, which may be the *rejecter's own* transaction id when it rejects a late reply)
RejectMirrors == \A e \in Ent : \A i \in 1..Len(chan[e]) :
                   LET m == chan[e][i] IN TypeOf(m) = "reject.req" => m.b3 \in 1..4 /\ (m.b3 = 2 => m.b2 # 0) /\ (m.b3 = 1 => m.b2 \notin {0, 1, 2, 3, 4, 5, 6, 7, 9})
OneOpenPerKind == \A e \in Ent : \A k \in {"select", "deselect", "linktest"} : Cardinality({t \in open[e] : t.kind = k}) <= 1
\* TLC -> Go: complete behaviours of Depth steps (simulation)
Dump == Depth = 0 \/ Len(hist) < Depth \/ PrintT("CASE " \o ToJson(hist))
=====================================================================