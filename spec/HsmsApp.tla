---------------------------- MODULE HsmsApp ----------------------------
(* The library in use: a host and an equipment over one HSMS-SS connection (SEMI E37) exchanging    *)
(* SECS-II transactions (SEMI E5) from a small GEM-like message dictionary.                          *)
(*   - connection state machine NOT_CONNECTED / NOT_SELECTED / SELECTED, select, deselect, linktest, separate *)
(*   - T3 (reply), T6 (control transaction) and T7 (not selected) time-outs as separate actions       *)
(*   - system bytes as transaction ids, replies paired with their primaries, late replies dropped     *)
(*   - the equipment answers what it cannot handle with S9F1/3/5/7 and a time-out with S9F9, each      *)
(*     carrying the ten header bytes of the offending message as a binary item (MHEAD); the host       *)
(*     aborts with SxF0                                                                               *)
(* A message is a Secs2 message record (so EncMsg / DecMsg apply to it) plus, for data messages, the   *)
(* dictionary name and arguments it was made from - the recipe the replayer follows with the real      *)
(* library: the dictionary is one SML text, a message is made by parsing it, filling variables          *)
(* (through ellipses where the arity varies), stamping session id and system bytes and encoding.       *)
(* Body() below says, independently of all that, which item the recipe denotes.                        *)
EXTENDS Secs2, FiniteSets, TLC, Json
CONSTANTS MaxSys,        \* transactions each entity may open (its system bytes are <<tag, 0, 0, 1..MaxSys>>)
          MaxChan,       \* channel capacity (messages in flight per direction)
          Depth,         \* 0: no history (exhaustive runs); n > 0: behaviours of n steps are printed (simulation)
          Rich,          \* TRUE: the full argument palette of the dictionary
          StartSelected  \* TRUE: behaviours begin in SELECTED (simulation spends its steps on transactions)
Ent == {"H", "E"}
Peer(e) == IF e = "H" THEN "E" ELSE "H"
DeviceId == 1
VARIABLES st, chan, open, nextSys, nDelivered, nDropped, hist
vars == <<st, chan, open, nextSys, nDelivered, nDropped, hist>>
View == <<st, chan, open, nextSys>>

\* ------------------------------------------------------------------ items of the dictionary (byte level)
A(b)   == [c |-> 16, b |-> b]
U1(n)  == [c |-> 41, b |-> <<n>>]
U2(n)  == [c |-> 42, b |-> BE2(n)]
U4(n)  == [c |-> 44, b |-> BE4(n)]
I2m2   == [c |-> 26, b |-> <<255, 254>>]                       \* <I2 -2>
Bin(b) == [c |-> 8, b |-> b]
L(s)   == [c |-> 0, e |-> s]
cMDLN == <<77, 68, 76, 78>>   cREV == <<49, 46, 48>>   cGO == <<71, 79>>   cP == <<80>>   cHOT == <<72, 79, 84>>
\* status variables of the equipment; an unknown id is answered with an empty list (E5)
SV(id) == CASE id = 1 -> U1(3) [] id = 2 -> A(cREV) [] id = 300 -> I2m2 [] OTHER -> L(<<>>)
Refused(vals) == SelectSeq(vals, LAMBDA v : v = 65535)               \* the command parameters the equipment refuses
Body(name, args) ==
  CASE name \in {"AreYouThere", "Abort", "Probe"} -> NONE
    [] name = "OnLineDataE" -> L(<<A(cMDLN), A(cREV)>>)
    [] name = "OnLineDataH" -> L(<<>>)
    [] name = "StatusReq"   -> L([i \in 1..Len(args) |-> U4(args[i])])
    [] name = "BadStatusReq" -> A(<<120>>)                                       \* S1F3 that is not a list: illegal data
    [] name = "StatusData"  -> L([i \in 1..Len(args) |-> SV(args[i])])
    [] name = "HostCmd"     -> L(<<A(cGO), L([i \in 1..Len(args) |-> L(<<A(cP), U2(args[i])>>)])>>)
    [] name = "HostCmdAck"  -> L(<<Bin(<<IF Refused(args) = <<>> THEN 0 ELSE 3>>),
                                   L([i \in 1..Len(Refused(args)) |-> L(<<A(cP), Bin(<<2>>)>>)])>>)
    [] name = "Alarm"       -> L(<<Bin(<<args[1]>>), U4(args[2]), A(cHOT)>>)
    [] name = "Event"       -> L(<<U4(args[1]), U4(args[2]),
                                   L(<<L(<<U4(1), L([i \in 1..(Len(args) - 2) |-> SV(args[i + 2])])>>)>>)>>)
    [] name \in {"AlarmAck", "EventAck"} -> Bin(<<0>>)
    [] name = "S9"          -> Bin(args)                                          \* MHEAD
Mk(name, args, sid, s, f, w, sys) ==
  [kind |-> "data", sid |-> sid, w |-> w, s |-> s, f |-> f, sys |-> sys, item |-> Body(name, args), name |-> name, args |-> args]
Ctrl(stype, sid, b3, sys) == [kind |-> "ctrl", hdr |-> BE2(sid) \o <<0, b3, 0, stype>> \o sys]
HdrOf(x) == IF x.kind = "ctrl" THEN x.hdr ELSE BE2(x.sid) \o <<x.w * 128 + x.s, x.f, 0, 0>> \o x.sys
SysOf(x) == SubSeq(HdrOf(x), 7, 10)
STypeOf(x) == HdrOf(x)[6]
\* the plain Secs2 record of a message (what the decoder must return for its bytes)
Strip(x) == IF x.kind = "ctrl" THEN x ELSE [kind |-> "data", sid |-> x.sid, w |-> x.w, s |-> x.s, f |-> x.f, sys |-> x.sys, item |-> x.item]
NoMsg == [kind |-> "none"]

\* ------------------------------------------------------------------ what each side may start
Sys(e) == <<IF e = "H" THEN 1 ELSE 2, 0, 0, nextSys[e]>>
HostPrimaries(sys) ==
  {Mk("AreYouThere", <<>>, DeviceId, 1, 1, 1, sys), Mk("StatusReq", <<2, 1>>, DeviceId, 1, 3, 1, sys),
   Mk("HostCmd", <<65535, 0>>, DeviceId, 2, 41, 1, sys), Mk("Probe", <<>>, DeviceId, 7, 1, 1, sys)}
  \cup (IF ~Rich THEN {} ELSE
  {Mk("AreYouThere", <<>>, DeviceId + 1, 1, 1, 1, sys),                    \* another device's id
   Mk("StatusReq", <<>>, DeviceId, 1, 3, 1, sys), Mk("StatusReq", <<7, 300, 1>>, DeviceId, 1, 3, 1, sys),
   Mk("StatusReq", <<1>>, DeviceId, 1, 3, 0, sys),                         \* no reply wanted
   Mk("BadStatusReq", <<>>, DeviceId, 1, 3, 1, sys),
   Mk("HostCmd", <<>>, DeviceId, 2, 41, 1, sys), Mk("HostCmd", <<0>>, DeviceId, 2, 41, 1, sys),
   Mk("Probe", <<>>, DeviceId, 1, 99, 1, sys), Mk("Probe", <<>>, DeviceId, 1, 99, 0, sys)})
EquipPrimaries(sys) ==
  {Mk("AreYouThere", <<>>, DeviceId, 1, 1, 1, sys), Mk("Event", <<16777216, 3, 1, 2>>, DeviceId, 6, 11, 1, sys)}
  \cup (IF ~Rich THEN {} ELSE
  {Mk("Alarm", <<129, 65536>>, DeviceId, 5, 1, 1, sys), Mk("Event", <<0, 255>>, DeviceId, 6, 11, 0, sys),
   Mk("Event", <<1, 256, 300, 7>>, DeviceId, 6, 11, 1, sys), Mk("Probe", <<>>, DeviceId, 3, 17, 1, sys)})

\* ------------------------------------------------------------------ what each side answers
IsU4List(it) == it # NONE /\ it.c = 0 /\ \A i \in 1..Len(it.e) : it.e[i].c = 44 /\ Len(it.e[i].b) = 4
\* the equipment: S9Fx (a primary of its own, with its own system bytes) or the secondary the dictionary names
EquipAnswer(x, sys9) ==
  LET S9(n) == Mk("S9", HdrOf(x), DeviceId, 9, n, 0, sys9) IN
  IF x.sid # DeviceId THEN S9(1)
  ELSE IF x.s \notin {1, 2} THEN S9(3)
  ELSE IF <<x.s, x.f>> \notin {<<1, 1>>, <<1, 3>>, <<2, 41>>} THEN S9(5)
  ELSE IF x.s = 1 /\ x.f = 3 /\ ~IsU4List(x.item) THEN S9(7)
  ELSE IF x.w = 0 THEN NoMsg
  ELSE CASE <<x.s, x.f>> = <<1, 1>> -> Mk("OnLineDataE", <<>>, x.sid, 1, 2, 0, x.sys)
         [] <<x.s, x.f>> = <<1, 3>> -> Mk("StatusData", x.args, x.sid, 1, 4, 0, x.sys)
         [] <<x.s, x.f>> = <<2, 41>> -> Mk("HostCmdAck", x.args, x.sid, 2, 42, 0, x.sys)
HostAnswer(x) ==
  IF x.w = 0 THEN NoMsg
  ELSE CASE <<x.s, x.f>> = <<1, 1>> -> Mk("OnLineDataH", <<>>, x.sid, 1, 2, 0, x.sys)
         [] <<x.s, x.f>> = <<5, 1>> -> Mk("AlarmAck", <<>>, x.sid, 5, 2, 0, x.sys)
         [] <<x.s, x.f>> = <<6, 11>> -> Mk("EventAck", <<>>, x.sid, 6, 12, 0, x.sys)
         [] OTHER -> Mk("Abort", <<>>, x.sid, x.s, 0, 0, x.sys)                 \* SxF0
IsS9(x) == x.kind = "data" /\ x.s = 9
IsPrimary(x) == x.kind = "data" /\ x.f % 2 = 1
NeedsOwnSys(r) == r # NoMsg /\ IsS9(r)

\* ------------------------------------------------------------------ behaviour
Log(act, e, x, r, sent) ==
  hist' = IF Depth = 0 THEN hist
          ELSE Append(hist, [act |-> act, e |-> e, msg |-> x, bytes |-> IF x = NoMsg THEN <<>> ELSE EncMsg(x),
                             reply |-> r, rbytes |-> IF r = NoMsg THEN <<>> ELSE EncMsg(r), sent |-> sent])
Init == /\ st = [e \in Ent |-> IF StartSelected THEN "SELECTED" ELSE "NOT_CONNECTED"]
        /\ chan = [e \in Ent |-> <<>>] /\ open = [e \in Ent |-> {}] /\ nextSys = [e \in Ent |-> 1]
        /\ nDelivered = 0 /\ nDropped = 0 /\ hist = <<>>
Fresh(e) == nextSys[e] <= MaxSys
CanSend(e) == st[e] # "NOT_CONNECTED" /\ Len(chan[Peer(e)]) < MaxChan
Put(e, x) == chan' = [chan EXCEPT ![Peer(e)] = Append(@, x)]
Take(e) == nextSys' = [nextSys EXCEPT ![e] = @ + 1]
Quiet == UNCHANGED <<nDelivered, nDropped>>

Connect == /\ \A e \in Ent : st[e] = "NOT_CONNECTED"
           /\ st' = [e \in Ent |-> "NOT_SELECTED"] /\ UNCHANGED <<chan, open, nextSys>> /\ Quiet
           /\ Log("Connect", "", NoMsg, NoMsg, FALSE)
Down(why, e) == /\ st' = [x \in Ent |-> "NOT_CONNECTED"] /\ chan' = [x \in Ent |-> <<>>] /\ open' = [x \in Ent |-> {}]
                /\ UNCHANGED nextSys /\ Quiet /\ Log(why, e, NoMsg, NoMsg, FALSE)
Disconnect == (\E e \in Ent : st[e] # "NOT_CONNECTED") /\ Down("Disconnect", "")          \* TCP loss
\* T6: a control transaction stays unanswered - communication failure
T6Expire(e) == (\E t \in open[e] : t.kind # "data") /\ Down("T6", e)
\* T7: connected but not selected for too long
T7Expire(e) == st[e] = "NOT_SELECTED" /\ (~\E t \in open[e] : t.kind = "select") /\ Down("T7", e)

OpenReq(e, kind, x) == open' = [open EXCEPT ![e] = @ \cup {[kind |-> kind, sys |-> SysOf(x), hdr |-> HdrOf(x)]}]
SendSelect(e) == /\ st[e] = "NOT_SELECTED" /\ (~\E t \in open[e] : t.kind = "select") /\ CanSend(e) /\ Fresh(e)
                 /\ LET x == Ctrl(1, 65535, 0, Sys(e)) IN Put(e, x) /\ OpenReq(e, "select", x) /\ Log("Send", e, x, NoMsg, FALSE)
                 /\ Take(e) /\ UNCHANGED st /\ Quiet
SendDeselect(e) == /\ st[e] = "SELECTED" /\ (~\E t \in open[e] : t.kind = "deselect") /\ CanSend(e) /\ Fresh(e)
                   /\ LET x == Ctrl(3, 65535, 0, Sys(e)) IN Put(e, x) /\ OpenReq(e, "deselect", x) /\ Log("Send", e, x, NoMsg, FALSE)
                   /\ Take(e) /\ UNCHANGED st /\ Quiet
SendLinktest(e) == /\ (~\E t \in open[e] : t.kind = "linktest") /\ CanSend(e) /\ Fresh(e)
                   /\ LET x == Ctrl(5, 65535, 0, Sys(e)) IN Put(e, x) /\ OpenReq(e, "linktest", x) /\ Log("Send", e, x, NoMsg, FALSE)
                   /\ Take(e) /\ UNCHANGED st /\ Quiet
SendSeparate(e) == /\ st[e] = "SELECTED" /\ CanSend(e) /\ Fresh(e)
                   /\ LET x == Ctrl(9, 65535, 0, Sys(e)) IN Put(e, x) /\ Log("Send", e, x, NoMsg, FALSE)
                   /\ st' = [st EXCEPT ![e] = "NOT_SELECTED"] /\ Take(e) /\ UNCHANGED open /\ Quiet
\* a primary is sent in SELECTED only (an entity that sends data earlier is HsmsSession's subject)
SendPrimary(e) == /\ st[e] = "SELECTED" /\ CanSend(e) /\ Fresh(e)
                  /\ \E x \in (IF e = "H" THEN HostPrimaries(Sys(e)) ELSE EquipPrimaries(Sys(e))) :
                        /\ Put(e, x) /\ Log("Send", e, x, NoMsg, FALSE)
                        /\ IF x.w = 1 THEN OpenReq(e, "data", x) ELSE UNCHANGED open
                  /\ Take(e) /\ UNCHANGED st /\ Quiet
\* T3: no reply to a primary. The transaction is closed; the equipment reports S9F9 with the primary's header
T3Expire(e) == \E t \in open[e] :
                 /\ t.kind = "data"
                 /\ open' = [open EXCEPT ![e] = @ \ {t}]
                 /\ IF e = "E" /\ CanSend(e) /\ Fresh(e)
                    THEN LET r == Mk("S9", t.hdr, DeviceId, 9, 9, 0, Sys(e)) IN Put(e, r) /\ Take(e) /\ Log("T3", e, NoMsg, r, TRUE)
                    ELSE UNCHANGED <<chan, nextSys>> /\ Log("T3", e, NoMsg, NoMsg, FALSE)
                 /\ UNCHANGED st /\ Quiet

Close(e, kind, sys) == open' = [open EXCEPT ![e] = {t \in @ : ~(t.kind = kind /\ t.sys = sys)}]
HasOpen(e, kind, sys) == \E t \in open[e] : t.kind = kind /\ t.sys = sys
Recv(e) ==
  /\ chan[e] # <<>>
  /\ LET x == Head(chan[e])
         rest == [chan EXCEPT ![e] = Tail(@)]
         room == Len(rest[Peer(e)]) < MaxChan
         Reply(r) == /\ (IF room THEN chan' = [rest EXCEPT ![Peer(e)] = Append(@, r)] ELSE chan' = rest)     \* full pipe = loss
                     /\ Log("Recv", e, x, r, room)
         NoReply == chan' = rest /\ Log("Recv", e, x, NoMsg, FALSE)
         Reject(reason) == Reply([kind |-> "ctrl", hdr |-> SubSeq(HdrOf(x), 1, 2) \o <<STypeOf(x), reason, 0, 7>> \o SysOf(x)])
     IN IF x.kind = "ctrl" THEN
          CASE STypeOf(x) = 1 -> /\ Reply(Ctrl(2, 65535, IF st[e] = "NOT_SELECTED" THEN 0 ELSE 1, SysOf(x)))
                                 /\ st' = [st EXCEPT ![e] = "SELECTED"] /\ UNCHANGED <<open, nextSys>> /\ Quiet
            [] STypeOf(x) = 2 -> IF HasOpen(e, "select", SysOf(x))
                                 THEN /\ NoReply /\ Close(e, "select", SysOf(x))
                                      /\ st' = [st EXCEPT ![e] = IF x.hdr[4] = 0 THEN "SELECTED" ELSE @] /\ UNCHANGED nextSys /\ Quiet
                                 ELSE Reject(3) /\ UNCHANGED <<st, open, nextSys>> /\ Quiet
            [] STypeOf(x) = 3 -> /\ Reply(Ctrl(4, 65535, IF st[e] = "SELECTED" THEN 0 ELSE 1, SysOf(x)))
                                 /\ st' = [st EXCEPT ![e] = "NOT_SELECTED"] /\ UNCHANGED <<open, nextSys>> /\ Quiet
            [] STypeOf(x) = 4 -> IF HasOpen(e, "deselect", SysOf(x))
                                 THEN /\ NoReply /\ Close(e, "deselect", SysOf(x))
                                      /\ st' = [st EXCEPT ![e] = IF x.hdr[4] = 0 THEN "NOT_SELECTED" ELSE @] /\ UNCHANGED nextSys /\ Quiet
                                 ELSE Reject(3) /\ UNCHANGED <<st, open, nextSys>> /\ Quiet
            [] STypeOf(x) = 5 -> Reply(Ctrl(6, 65535, 0, SysOf(x))) /\ UNCHANGED <<st, open, nextSys>> /\ Quiet
            [] STypeOf(x) = 6 -> IF HasOpen(e, "linktest", SysOf(x))
                                 THEN NoReply /\ Close(e, "linktest", SysOf(x)) /\ UNCHANGED <<st, nextSys>> /\ Quiet
                                 ELSE Reject(3) /\ UNCHANGED <<st, open, nextSys>> /\ Quiet
            [] STypeOf(x) = 7 -> NoReply /\ open' = [open EXCEPT ![e] = {t \in @ : t.sys # SysOf(x)}] /\ UNCHANGED <<st, nextSys>> /\ Quiet
            [] STypeOf(x) = 9 -> NoReply /\ st' = [st EXCEPT ![e] = "NOT_SELECTED"] /\ UNCHANGED <<open, nextSys>> /\ Quiet
        ELSE IF st[e] # "SELECTED" THEN Reject(4) /\ UNCHANGED <<st, open, nextSys>> /\ Quiet
        ELSE IF IsPrimary(x) THEN
               LET r == IF e = "E" THEN EquipAnswer(x, Sys(e)) ELSE HostAnswer(x) IN
               /\ nDelivered' = nDelivered + 1 /\ UNCHANGED <<st, open, nDropped>>
               /\ IF r = NoMsg \/ (NeedsOwnSys(r) /\ ~Fresh(e)) THEN NoReply /\ UNCHANGED nextSys
                  ELSE /\ Reply(r) /\ (IF NeedsOwnSys(r) THEN Take(e) ELSE UNCHANGED nextSys)
        ELSE \* a secondary (or SxF0): closes the transaction it answers; without one it is a late reply and is dropped
             /\ NoReply /\ UNCHANGED <<st, nextSys>>
             /\ IF HasOpen(e, "data", x.sys)
                THEN Close(e, "data", x.sys) /\ nDelivered' = nDelivered + 1 /\ UNCHANGED nDropped
                ELSE UNCHANGED <<open, nDelivered>> /\ nDropped' = nDropped + 1

Next == (Depth = 0 \/ Len(hist) < Depth) /\
        (Connect \/ Disconnect \/ \E e \in Ent : \/ SendSelect(e) \/ SendDeselect(e) \/ SendLinktest(e) \/ SendSeparate(e) \/ SendPrimary(e)
                                                 \/ T3Expire(e) \/ T6Expire(e) \/ T7Expire(e) \/ Recv(e))
Spec == Init /\ [][Next]_vars
\* every message in flight is eventually received and every time-out that stays due eventually fires
FairSpec == Spec /\ \A e \in Ent : WF_vars(Recv(e)) /\ WF_vars(T3Expire(e)) /\ WF_vars(T6Expire(e))

\* ------------------------------------------------------------------ properties
InFlight(e) == {chan[e][i] : i \in 1..Len(chan[e])}
AllMsgs == UNION {InFlight(e) : e \in Ent}
TypeOK == /\ st \in [Ent -> {"NOT_CONNECTED", "NOT_SELECTED", "SELECTED"}]
          /\ \A e \in Ent : Len(chan[e]) <= MaxChan /\ nextSys[e] \in 1..MaxSys + 1
BothOrNeitherConnected == (st["H"] = "NOT_CONNECTED") <=> (st["E"] = "NOT_CONNECTED")
NothingInFlightWhenDown == (\A e \in Ent : st[e] = "NOT_CONNECTED") => \A e \in Ent : chan[e] = <<>> /\ open[e] = {}
\* the library can make every message the protocol asks for, and its decoder accepts and returns it (C01 - C03 in use)
Buildable == \A x \in AllMsgs : x.kind = "data" => ~(x.w = 1 /\ x.f % 2 = 0) /\ x.s \in 0..127 /\ x.f \in 0..255
WireRoundTrip == \A x \in AllMsgs : LET r == DecMsg(EncMsg(x)) IN r.ok /\ r.msg = Strip(x)
\* S9 goes to the host only, and its MHEAD is the ten header bytes of a message that its subject sent
S9ToHostOnly == \A x \in InFlight("E") : ~IsS9(x)
MheadIsAHeader == \A x \in InFlight("H") : IsS9(x) =>
                    /\ x.item.c = 8 /\ Len(x.item.b) = 10
                    /\ x.item.b[7] = (IF x.f = 9 THEN 2 ELSE 1)                 \* time-outs concern the equipment's own primaries
                    /\ x.item.b[5] = 0 /\ x.item.b[6] = 0                      \* of a data message
\* a secondary in flight answers the primary with its system bytes: same stream, function + 1 or 0
RepliesPaired == \A e \in Ent : \A x \in InFlight(e) :
                   (x.kind = "data" /\ ~IsPrimary(x)) =>
                      \A t \in open[e] : (t.kind = "data" /\ t.sys = x.sys) =>
                          /\ x.s = t.hdr[3] % 128 /\ (x.f = t.hdr[4] + 1 \/ x.f = 0) /\ x.w = 0 /\ BE2(x.sid) = SubSeq(t.hdr, 1, 2)
\* system bytes identify a transaction: an entity's open transactions have different ones, each of its own making
SysUnique == \A e \in Ent : /\ \A t, u \in open[e] : t.sys = u.sys => t = u
                            /\ \A t \in open[e] : t.sys[1] = (IF e = "H" THEN 1 ELSE 2) /\ t.sys[4] < nextSys[e]
OneOpenPerKind == \A e \in Ent : \A k \in {"select", "deselect", "linktest"} : Cardinality({t \in open[e] : t.kind = k}) <= 1
\* data is handed to the application in SELECTED only (an action property: the counter is hidden by the VIEW)
DeliverOnlySelected == [][nDelivered' # nDelivered => \E e \in Ent : st[e] = "SELECTED"]_vars
\* liveness (under FairSpec): every transaction is closed in the end - by its reply, a reject, a time-out or the loss of the connection
Settles == \A e \in Ent : []<>(open[e] = {})
\* TLC -> Go: complete behaviours of Depth steps (simulation)
Dump == Depth = 0 \/ Len(hist) < Depth \/ PrintT("CASE " \o ToJson(hist))
=====================================================================
