---------------------------- MODULE MessageOps ----------------------------
(* What the DataMessage producers compute, as functions on message records  *)
(* [name, s, f, w, dir, item, sid, sys] (w: 0 false, 1 true, 2 optional;     *)
(* sid -1 = not set).  Shared by the bounded model (Message) and the trace  *)
(* specification (TraceMessage).                                            *)
EXTENDS Secs2
\* ------------------------------------------------------------------ producer semantics (shared)
Pad4(s) == [i \in 1..4 |-> IF i <= Len(s) THEN s[i] ELSE 0]
\* validity rules of a message record; w is 0 (false), 1 (true), 2 (optional); sid -1 = not set
RepOK(x) == /\ x.s \in 0..127 /\ x.f \in 0..255 /\ x.w \in {0, 1, 2} /\ ~(x.w = 1 /\ x.f % 2 = 0)
            /\ x.sid \in -1..65535 /\ Len(x.sys) = 4 /\ x.dir \in {"H->E", "H<-E", "H<->E"}
Refused == [refused |-> TRUE]
OrRefuse(x) == IF RepOK(x) THEN x ELSE Refused
\* SetWaitBit: resolves an optional wait bit; a decided one is returned as it is
WaitBitRes(x, b) == IF x.w # 2 THEN x ELSE OrRefuse([x EXCEPT !.w = IF b THEN 1 ELSE 0])
\* SetSessionIDAndSystemBytes: those two fields, system bytes padded or cut to four
SessionRes(x, sid, sys) == OrRefuse([x EXCEPT !.sid = sid, !.sys = Pad4(sys)])
\* FillVariables: the item tree only
FillRes(x, item) == [x EXCEPT !.item = item]
NewRes(name, s, f, w, dir, item) == OrRefuse([name |-> name, s |-> s, f |-> f, w |-> w, dir |-> dir, item |-> item,
                                              sid |-> -1, sys |-> <<0, 0, 0, 0>>])

=====================================================================
