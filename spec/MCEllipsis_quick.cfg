SPECIFICATION MSpec
CONSTANTS
  MaxItems = 2
  MaxCount = 1
  EmitEvery = 97
INVARIANTS Correct Fillable EmitCase
CHECK_DEADLOCK FALSE
