SPECIFICATION Spec
CONSTANTS
  MaxSys = 6
  MaxChan = 2
  Depth = 18
  Rich = TRUE
  StartSelected = TRUE
INVARIANTS Dump
CHECK_DEADLOCK FALSE
