SPECIFICATION Spec
CONSTANTS
  MaxSys = 6
  MaxChan = 2
  Depth = 14
  Rich = TRUE
  StartSelected = TRUE
INVARIANTS Dump
CHECK_DEADLOCK FALSE
