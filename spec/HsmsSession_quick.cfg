SPECIFICATION Spec
CONSTANTS
  MaxSys = 2
  MaxChan = 2
  Depth = 0
VIEW View
INVARIANTS TypeOK NothingInFlightWhenDown BothOrNeitherConnected DataOnlyWhenSelected ResponsesEcho RejectMirrors OneOpenPerKind
CHECK_DEADLOCK FALSE
