SPECIFICATION Spec
CONSTANTS
  MaxPool = 4
  Depth = 7
INVARIANTS Dump
CHECK_DEADLOCK FALSE
