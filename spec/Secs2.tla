---------------------------- MODULE Secs2 ----------------------------
(* SECS-II data items and HSMS messages (SEMI E5 section 9, SEMI E37):      *)
(* the wire format as an independent statement, and the strict grammar      *)
(* of well-formed messages.  Nothing here is shaped like the Go code.       *)
(*                                                                          *)
(* Byte-level item : [c |-> 0, e |-> <<items>>]        a list               *)
(*                   [c |-> code, b |-> <<payload>>]   any other format     *)
(* Value-level item: what the Go projection sends (see ByteLevel below).    *)
(* Message         : [kind |-> "data", sid, w, s, f, sys, item]  (item may  *)
(*                   be NONE = no text)  |  [kind |-> "ctrl", hdr]          *)
EXTENDS Integers, Sequences, SequencesExt, Num

MaxBytes == 16777215

\* ------------------------------------------------------------------ formats
FmtNames == {"L", "B", "BOOLEAN", "A", "I8", "I1", "I2", "I4", "F8", "F4", "U8", "U1", "U2", "U4"}
CodeOf(f) == CASE f = "L" -> 0 [] f = "B" -> 8 [] f = "BOOLEAN" -> 9 [] f = "A" -> 16 [] f = "I8" -> 24 [] f = "I1" -> 25
               [] f = "I2" -> 26 [] f = "I4" -> 28 [] f = "F8" -> 32 [] f = "F4" -> 36 [] f = "U8" -> 40 [] f = "U1" -> 41
               [] f = "U2" -> 42 [] f = "U4" -> 44
Codes == {0, 8, 9, 16, 24, 25, 26, 28, 32, 36, 40, 41, 42, 44}
\* bytes per element (a list's "width" is 1: its length field counts elements)
Width(c) == CASE c \in {0, 8, 9, 16, 25, 41} -> 1 [] c \in {26, 42} -> 2 [] c \in {28, 36, 44} -> 4
              [] c \in {24, 32, 40} -> 8 [] OTHER -> 0
SignedCodes == {24, 25, 26, 28}
UnsignedCodes == {40, 41, 42, 44}
FloatCodes == {32, 36}

\* ------------------------------------------------------------------ encoder (E5 9.2, 9.3)
\* shortest big-endian length
LenBytes(n) == IF n <= 255 THEN <<n>> ELSE IF n <= 65535 THEN <<n \div 256, n % 256>>
               ELSE <<n \div 65536, (n \div 256) % 256, n % 256>>
\* format byte (format code in the upper six bits, number of length bytes in the lower two) + length
Hdr(c, n) == <<c * 4 + Len(LenBytes(n))>> \o LenBytes(n)
\* an item with n elements of format code c can exist iff its payload fits three length bytes
Constructible(c, n) == n * Width(c) <= MaxBytes
ItemHeader(c, n) == Hdr(c, n * Width(c))

RECURSIVE EncItem(_)
EncItem(t) == IF t.c = 0 THEN Hdr(0, Len(t.e)) \o FlattenSeq([i \in 1..Len(t.e) |-> EncItem(t.e[i])])
              ELSE Hdr(t.c, Len(t.b)) \o t.b
BE4(n) == <<n \div 16777216, (n \div 65536) % 256, (n \div 256) % 256, n % 256>>
BE2(n) == <<n \div 256, n % 256>>
NONE == [c |-> -1]
EncText(item) == IF item = NONE THEN <<>> ELSE EncItem(item)
EncMsg(m) == IF m.kind = "ctrl" THEN <<0, 0, 0, 10>> \o m.hdr
             ELSE LET text == EncText(m.item) IN
                  BE4(Len(text) + 10) \o BE2(m.sid) \o <<m.w * 128 + m.s, m.f, 0, 0>> \o m.sys \o text

\* ------------------------------------------------------------------ value validity, canonical form
FiniteF4(b) == (b[1] % 128) * 2 + b[2] \div 128 # 255          \* exponent not all ones
FiniteF8(b) == (b[1] % 128) * 16 + b[2] \div 16 # 2047
LeafOK(c, b) == /\ c \in Codes \ {0} /\ Len(b) % Width(c) = 0
                /\ (c = 16 => \A i \in 1..Len(b) : b[i] < 128)
                /\ (c = 36 => \A k \in 0..(Len(b) \div 4 - 1) : FiniteF4(SubSeq(b, 4 * k + 1, 4 * k + 4)))
                /\ (c = 32 => \A k \in 0..(Len(b) \div 8 - 1) : FiniteF8(SubSeq(b, 8 * k + 1, 8 * k + 8)))
\* booleans are normalised to 0/1
Canon(c, b) == IF c = 9 THEN [i \in 1..Len(b) |-> IF b[i] = 0 THEN 0 ELSE 1] ELSE b

\* ------------------------------------------------------------------ strict grammar of well-formed messages
RECURSIVE DecAt(_, _), DecList(_, _, _, _)
DecList(s, p, k, acc) == IF k = 0 THEN [ok |-> TRUE, next |-> p, items |-> acc]
                         ELSE LET r == DecAt(s, p) IN
                              IF ~r.ok THEN [ok |-> FALSE, next |-> p, items |-> acc]
                              ELSE DecList(s, r.next, k - 1, Append(acc, r.item))
Bad == [ok |-> FALSE, next |-> 0, item |-> NONE]
\* one item starting at index p (1-based); any of 1..3 length bytes, minimal or not
DecAt(s, p) ==
  IF p > Len(s) THEN Bad
  ELSE LET code == s[p] \div 4   nl == s[p] % 4 IN
    IF nl = 0 \/ p + nl > Len(s) THEN Bad
    ELSE LET len == IF nl = 1 THEN s[p + 1] ELSE IF nl = 2 THEN s[p + 1] * 256 + s[p + 2]
                    ELSE s[p + 1] * 65536 + s[p + 2] * 256 + s[p + 3]
             q == p + 1 + nl IN
      IF code = 0 THEN
           \* each element needs at least two bytes: more elements than that cannot be present
           IF len > Len(s) THEN Bad
           ELSE LET r == DecList(s, q, len, <<>>) IN
                IF r.ok THEN [ok |-> TRUE, next |-> r.next, item |-> [c |-> 0, e |-> r.items]] ELSE Bad
      ELSE IF q + len - 1 > Len(s) THEN Bad
      ELSE LET b == SubSeq(s, q, q + len - 1) IN
           IF LeafOK(code, b) THEN [ok |-> TRUE, next |-> q + len, item |-> [c |-> code, b |-> Canon(code, b)]] ELSE Bad
DefinedSType == {1, 2, 3, 4, 5, 6, 7, 9}
\* the message length field is compared bytewise (TLC integers are 32-bit)
LengthFieldOK(s) == Len(s) >= 4 /\ SubSeq(s, 1, 4) = BE4(Len(s) - 4)
DecMsg(s) ==
  IF Len(s) < 14 \/ ~LengthFieldOK(s) THEN [ok |-> FALSE]
  ELSE IF s[9] # 0 THEN [ok |-> FALSE]                                   \* PType
  ELSE IF s[10] \in DefinedSType THEN
         (IF Len(s) = 14 THEN [ok |-> TRUE, msg |-> [kind |-> "ctrl", hdr |-> SubSeq(s, 5, 14)]] ELSE [ok |-> FALSE])
  ELSE IF s[10] # 0 THEN [ok |-> FALSE]
  ELSE LET w == s[7] \div 128  f == s[8]
           hd == [kind |-> "data", sid |-> s[5] * 256 + s[6], w |-> w, s |-> s[7] % 128, f |-> f, sys |-> SubSeq(s, 11, 14)] IN
       IF w = 1 /\ f % 2 = 0 THEN [ok |-> FALSE]
       ELSE IF Len(s) = 14 THEN [ok |-> TRUE, msg |-> hd @@ [item |-> NONE]]
       ELSE LET r == DecAt(s, 15) IN
            IF r.ok /\ r.next = Len(s) + 1 THEN [ok |-> TRUE, msg |-> hd @@ [item |-> r.item]] ELSE [ok |-> FALSE]
WellFormed(s) == DecMsg(s).ok
\* what re-encoding an accepted input must give: minimal length bytes, booleans 0/1
Normalize(s) == EncMsg(DecMsg(s).msg)

\* ------------------------------------------------------------------ value level (the Go projection)
\*  {"f":"L","e":[...]}                       list; elements are items
\*  {"f":"A","s":[codes]}                     ASCII literal
\*  {"f":"B","e":[{"b":n}..]}   {"f":"BOOLEAN","e":[{"t":bool}..]}
\*  {"f":"I2","e":[{"neg":b,"dec":[digits]}..]}     integers as decimal digits
\*  {"f":"F4","e":[{"bits":[4 bytes],"txt":[chars]}..]}   floats as IEEE bit patterns (math.Float32bits)
ElemBytes(c, x) == IF "b" \in DOMAIN x THEN <<x.b>>
                   ELSE IF "t" \in DOMAIN x THEN <<IF x.t THEN 1 ELSE 0>>
                   ELSE IF "bits" \in DOMAIN x THEN x.bits
                   ELSE IntBytes(OfJson(x), Width(c))
\* is the element's mathematical value in the domain of format c?
ElemInDomain(c, x) == IF "b" \in DOMAIN x THEN c = 8 /\ x.b \in 0..255
                      ELSE IF "t" \in DOMAIN x THEN c = 9
                      ELSE IF "bits" \in DOMAIN x THEN c \in FloatCodes /\ Len(x.bits) = Width(c)
                                                      /\ (IF c = 36 THEN FiniteF4(x.bits) ELSE FiniteF8(x.bits))
                      ELSE IF c \in SignedCodes THEN InSigned(OfJson(x), 8 * Width(c))
                      ELSE c \in UnsignedCodes /\ InUnsigned(OfJson(x), 8 * Width(c))
RECURSIVE ByteLevel(_)
\* E5 encoding of the values: two's complement big-endian, IEEE-754, 0/1, 7-bit ASCII, children in order
ByteLevel(x) == IF x.f = "none" THEN NONE
                ELSE LET c == CodeOf(x.f) IN
                IF c = 0 THEN [c |-> 0, e |-> [i \in 1..Len(x.e) |-> ByteLevel(x.e[i])]]
                ELSE IF c = 16 THEN [c |-> 16, b |-> x.s]
                ELSE [c |-> c, b |-> FlattenSeq([i \in 1..Len(x.e) |-> ElemBytes(c, x.e[i])])]
RECURSIVE ValuesOK(_)
\* every value of a variable-free value-level item is in its format's domain and the item fits the limit
ValuesOK(x) == IF x.f = "none" THEN TRUE
               ELSE LET c == CodeOf(x.f) IN
               IF c = 0 THEN Len(x.e) <= MaxBytes /\ \A i \in 1..Len(x.e) : ValuesOK(x.e[i])
               ELSE IF c = 16 THEN Len(x.s) <= MaxBytes /\ \A i \in 1..Len(x.s) : x.s[i] \in 0..127
               ELSE Constructible(c, Len(x.e)) /\ \A i \in 1..Len(x.e) : ElemInDomain(c, x.e[i])
\* the message record for a recorded header + value-level item
WNum(w) == IF w = "true" THEN 1 ELSE IF w = "false" THEN 0 ELSE 2
MsgOf(h, item) == [kind |-> "data", sid |-> h.sid, w |-> WNum(h.w), s |-> h.s, f |-> h.f, sys |-> h.sys, item |-> item]
=====================================================================
