SPECIFICATION RTSpec
CONSTANTS
  MaxVals = 3
  MaxKids = 2
  EmitEvery = 7
  AsIsD1 = FALSE
  AsIsD2 = FALSE
  AsIsD3 = FALSE
  AsIsD4 = FALSE
INVARIANTS RoundTrip GrammarAgrees InvalidRefused Layout ItemsLaidOut EmitCase
CHECK_DEADLOCK FALSE
