---------------------------- MODULE MCControl ----------------------------
(* C14 on the specification: the type function is total and agrees with the *)
(* decoder's SType dispatch for all 65,536 (PType, SType) pairs; every      *)
(* constructor yields a header of its own kind; responses pair with their   *)
(* requests; the 14 wire bytes decode to the same header.                   *)
EXTENDS ControlMsg, Secs2, TLC, Json
VARIABLES pt, stp
Init == pt \in 0..255 /\ stp = -1
Next == stp = -1 /\ stp' \in 0..255 /\ UNCHANGED pt
Spec == Init /\ [][Next]_<<pt, stp>>
Sids == {0, 1, 255, 256, 32767, 32768, 65534, 65535}
Syss == {<<0, 0, 0, 0>>, <<255, 254, 1, 128>>}
AnyHeader(p, s) == <<1, 2, 3, 4, p, s, 9, 8, 7, 6>>
TypeTotal == stp >= 0 =>
   LET t == TypeOf(pt, stp)  r == DecMsg(Wire(AnyHeader(pt, stp))) IN
   /\ t \in Kinds \cup {"data message", "undefined"}
   /\ (t \in Kinds) = (pt = 0 /\ stp \in DefinedSType)
   \* the decoder accepts a header-only message iff its type is defined, and returns the same header
   /\ r.ok = (t # "undefined")
   /\ (t \in Kinds) => (r.msg.kind = "ctrl" /\ r.msg.hdr = AnyHeader(pt, stp))
Constructors == (pt = 0 /\ stp >= 0) =>      \* evaluated once per status / reason code stp
   \A sid \in Sids, sys \in Syss :
     /\ TypeOf(0, SelectReq(sid, sys)[6]) = "select.req" /\ TypeOf(0, SeparateReq(sid, sys)[6]) = "separate.req"
     /\ TypeOf(0, DeselectReq(sid, sys)[6]) = "deselect.req" /\ TypeOf(0, LinktestReq(sys)[6]) = "linktest.req"
     /\ LET rq == SelectReq(sid, sys)  rs == SelectRsp(rq, stp) IN
          TypeOf(rs[5], rs[6]) = "select.rsp" /\ SidOf(rs) = sid /\ SysOf(rs) = sys /\ rs[4] = stp /\ rs[3] = 0
     /\ LET rq == DeselectReq(sid, sys)  rs == DeselectRsp(rq, stp) IN
          TypeOf(rs[5], rs[6]) = "deselect.rsp" /\ SidOf(rs) = sid /\ SysOf(rs) = sys /\ rs[4] = stp
     /\ LET rs == LinktestRsp(LinktestReq(sys)) IN TypeOf(rs[5], rs[6]) = "linktest.rsp" /\ SidOf(rs) = 65535 /\ SysOf(rs) = sys
     /\ \A p \in {0, 1, 255}, t \in {0, 8, 255} :
          LET rj == RejectReq(sid, p, t, sys, stp) IN
          TypeOf(rj[5], rj[6]) = "reject.req" /\ rj[4] = stp /\ rj[3] = (IF stp = 2 THEN p ELSE t) /\ SidOf(rj) = sid
\* TLC -> Go: constructor calls and the 14 bytes the specification demands
EmitCases == (pt \in {0, 2, 255} /\ stp >= 0) =>
   \A sid \in {0, 255, 256, 65535}, sys \in Syss :
     PrintT("CASE " \o ToJson([sid |-> sid, sys |-> sys, code |-> stp, ptype |-> pt, stype |-> (stp * 7) % 256,
         selectreq |-> Wire(SelectReq(sid, sys)), selectrsp |-> Wire(SelectRsp(SelectReq(sid, sys), stp)),
         deselectreq |-> Wire(DeselectReq(sid, sys)), deselectrsp |-> Wire(DeselectRsp(DeselectReq(sid, sys), stp)),
         linktestreq |-> Wire(LinktestReq(sys)), linktestrsp |-> Wire(LinktestRsp(LinktestReq(sys))),
         separatereq |-> Wire(SeparateReq(sid, sys)),
         rejectreq |-> Wire(RejectReq(sid, pt, (stp * 7) % 256, sys, stp))]))
=====================================================================
