---------------------------- MODULE Items ----------------------------
(* The item algebra at value level: items with variables, the observers     *)
(* Variables / Size, substitution (what FillVariables must compute for      *)
(* ellipsis-free templates), and the constructors' domain rules.            *)
(* Shapes (as the Go projection sends them):                                *)
(*   [f |-> "L", e |-> << item | [var |-> chars] | [ell |-> k] >>]         *)
(*   [f |-> "A", s |-> chars]  |  [f |-> "A", var |-> chars, lo, hi]        *)
(*   [f |-> "U2", e |-> << value | [var |-> chars] >>]   (all array formats)*)
(*   [f |-> "none"]                                                         *)
(* lo / hi and integers are [neg, dec] (decimal digits); k = -1 is "...".   *)
EXTENDS Secs2, FiniteSets

IsVarEl(x) == "var" \in DOMAIN x /\ ~("f" \in DOMAIN x)
IsEllEl(x) == "ell" \in DOMAIN x
IsItem(x)  == "f" \in DOMAIN x
EllName(k) == IF k = -1 THEN <<46, 46, 46>> ELSE <<46, 46, 46, 91>> \o DecChars(k) \o <<93>>
NameOf(x)  == IF IsEllEl(x) THEN EllName(x.ell) ELSE x.var

\* ------------------------------------------------------------------ observers
RECURSIVE Vars(_)
\* variable names, each once, in the order of their positions (which is the printed order)
Vars(x) == IF x.f = "none" THEN <<>>
           ELSE IF x.f = "L" THEN FlattenSeq([i \in 1..Len(x.e) |->
                     IF IsItem(x.e[i]) THEN Vars(x.e[i]) ELSE <<NameOf(x.e[i])>>])
           ELSE IF x.f = "A" THEN (IF "var" \in DOMAIN x THEN <<x.var>> ELSE <<>>)
           ELSE SelectSeq([i \in 1..Len(x.e) |-> IF "var" \in DOMAIN x.e[i] THEN x.e[i].var ELSE <<>>], LAMBDA n : n # <<>>)
NoDup(s) == \A i, j \in 1..Len(s) : i # j => s[i] # s[j]
\* reported size: number of elements printed; an unfilled ASCII variable reports -1 by convention
SizeOf(x) == IF x.f = "none" THEN 0
             ELSE IF x.f = "A" THEN (IF "var" \in DOMAIN x THEN -1 ELSE Len(x.s))
             ELSE Len(x.e)
Encodable(x) == Vars(x) = <<>>
\* bytes of an item: the E5 encoding iff no variable is left, else nothing
ItemBytes(x) == IF x.f = "none" \/ ~Encodable(x) THEN <<>> ELSE EncItem(ByteLevel(x))

\* ------------------------------------------------------------------ names
IsAlphaU(c) == (c >= 65 /\ c <= 90) \/ (c >= 97 /\ c <= 122) \/ c = 95
IsWord(c) == IsAlphaU(c) \/ (c >= 48 /\ c <= 57)
RECURSIVE SufOK(_, _)
\* (\[\d+\])* from index i
SufOK(n, i) == IF i > Len(n) THEN TRUE
               ELSE IF n[i] # 91 THEN FALSE
               ELSE LET RECURSIVE Dig(_)
                        Dig(j) == IF j <= Len(n) /\ n[j] >= 48 /\ n[j] <= 57 THEN Dig(j + 1) ELSE j
                        j == Dig(i + 1)
                    IN j > i + 1 /\ j <= Len(n) /\ n[j] = 93 /\ SufOK(n, j + 1)
\* ^[A-Za-z_]\w*(\[\d+\])*$
ValidVarName(n) == /\ n # <<>> /\ IsAlphaU(n[1])
                   /\ LET RECURSIVE W(_)
                          W(i) == IF i <= Len(n) /\ IsWord(n[i]) THEN W(i + 1) ELSE i
                      IN SufOK(n, W(2))
\* ^\.{3}(\[\d+\])?$
IsEllipsisName(n) == /\ Len(n) >= 3 /\ n[1] = 46 /\ n[2] = 46 /\ n[3] = 46
                     /\ (Len(n) = 3 \/ (n[4] = 91 /\ n[Len(n)] = 93 /\ Len(n) >= 6
                                        /\ \A i \in 5..(Len(n) - 1) : n[i] >= 48 /\ n[i] <= 57))

\* float64 bit patterns compare like the numbers they denote once the sign is cleared
RECURSIVE LexLE(_, _)
LexLE(a, b) == IF a = <<>> THEN TRUE ELSE IF a[1] # b[1] THEN a[1] < b[1] ELSE LexLE(Tail(a), Tail(b))
MaxF32As64 == <<71, 239, 255, 255, 224, 0, 0, 0>>                       \* math.MaxFloat32 as a float64
Abs64(b) == [b EXCEPT ![1] = @ % 128]
ArgInDomain(c, x) == IF "bits64" \in DOMAIN x
                     THEN FiniteF8(x.bits64) /\ (c = 36 => LexLE(Abs64(x.bits64), MaxF32As64))
                     ELSE IF "b" \in DOMAIN x THEN c = 8 /\ x.b \in 0..255
                     ELSE ElemInDomain(c, x)

\* ------------------------------------------------------------------ substitution (C09)
\* sigma: a sequence of [k |-> name, v |-> value]; names are unique.
\*   value for an array variable: an element value, or [var |-> chars] (a rename)
\*   value for a list-level variable: an item, or [var |-> chars]
\*   value for an ASCII variable: [s |-> chars]
Lookup(sigma, name) == LET I == {i \in 1..Len(sigma) : sigma[i].k = name} IN
                       IF I = {} THEN [none |-> TRUE] ELSE sigma[CHOOSE i \in I : TRUE].v
Bound(b) == IF b.neg THEN -1 ELSE IF Len(b.dec) > 9 THEN 2000000000
            ELSE LET RECURSIVE D(_, _)
                     D(ds, acc) == IF ds = <<>> THEN acc ELSE D(Tail(ds), acc * 10 + Head(ds))
                 IN D(b.dec, 0)
\* may the string be filled into the ASCII variable?
FitsAscii(x, s) == Len(s) >= Bound(x.lo) /\ (Bound(x.hi) = -1 \/ Len(s) <= Bound(x.hi))
RECURSIVE Subst(_, _)
Subst(x, sigma) ==
  IF x.f = "none" THEN x
  ELSE IF x.f = "L" THEN
     [f |-> "L", e |-> [i \in 1..Len(x.e) |->
          IF IsItem(x.e[i]) THEN Subst(x.e[i], sigma)
          ELSE IF IsEllEl(x.e[i]) THEN x.e[i]
          ELSE LET v == Lookup(sigma, x.e[i].var) IN IF "none" \in DOMAIN v THEN x.e[i] ELSE v]]
  ELSE IF x.f = "A" THEN
     (IF "var" \in DOMAIN x THEN LET v == Lookup(sigma, x.var) IN
                                 IF "none" \in DOMAIN v THEN x ELSE [f |-> "A", s |-> v.s]
      ELSE x)
  ELSE [f |-> x.f, e |-> [i \in 1..Len(x.e) |->
          IF "var" \in DOMAIN x.e[i] THEN LET v == Lookup(sigma, x.e[i].var) IN IF "none" \in DOMAIN v THEN x.e[i] ELSE v
          ELSE x.e[i]]]
\* is the substituted item one the constructors accept?  (values in their domains, ASCII length inside the
\* variable's bounds, 7-bit characters; names stay unique because fill-in values are variable-free)
RECURSIVE FillOK(_, _, _)
FillOK(x, sigma, bounds) ==
  IF x.f = "none" THEN TRUE
  ELSE IF x.f = "L" THEN \A i \in 1..Len(x.e) : IsItem(x.e[i]) => FillOK(x.e[i], sigma, bounds)
  ELSE IF x.f = "A" THEN
     ("var" \in DOMAIN x => LET v == Lookup(sigma, x.var) IN
                            "none" \in DOMAIN v \/ ((~bounds \/ FitsAscii(x, v.s)) /\ \A i \in 1..Len(v.s) : v.s[i] \in 0..127))
  ELSE \A i \in 1..Len(x.e) :
          "var" \in DOMAIN x.e[i] => LET v == Lookup(sigma, x.e[i].var) IN
                                     "none" \in DOMAIN v \/ "var" \in DOMAIN v \/ ArgInDomain(CodeOf(x.f), v)
\* names removed by sigma
RemainingVars(x, sigma) == SelectSeq(Vars(x), LAMBDA n : "none" \in DOMAIN Lookup(sigma, n))
=====================================================================
