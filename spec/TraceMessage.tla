---------------------------- MODULE TraceMessage ----------------------------
(* Trace validation of API histories (C11 immutability / no aliasing, C18    *)
(* producers change exactly the fields they name).  A history is a          *)
(* sequence of calls on a growing pool of real items and messages; after    *)
(* every call the harness scribbles over every argument and every returned  *)
(* slice and re-observes every live object (digest of String, ToBytes,      *)
(* Variables, Size, header accessors and the representation).               *)
(* The specification keeps its own pool of abstract values and applies the  *)
(* producer functions of MessageOps / Items to it.  Non-blocking: every     *)
(* line is consumed, `verdict` says what held.                              *)
EXTENDS MessageOps, Ellipsis, Json, TLC
Trace == ndJsonDeserialize("trace.ndjson")
VARIABLES l, pool, dig, verdict
tvars == <<l, pool, dig, verdict>>
OK == [c11 |-> TRUE, c18 |-> TRUE]

\* ------------------------------------------------------------------ normal forms
NormEl(x) == IF "var" \in DOMAIN x THEN [var |-> x.var]
             ELSE IF "b" \in DOMAIN x THEN [b |-> x.b]
             ELSE IF "t" \in DOMAIN x THEN [t |-> x.t]
             ELSE IF "bits" \in DOMAIN x THEN [bits |-> x.bits]
             ELSE OfJson(x)
RECURSIVE Norm(_)
Norm(x) == IF x.f = "none" THEN [f |-> "none"]
           ELSE IF x.f = "L" THEN [f |-> "L", e |-> [i \in 1..Len(x.e) |->
                   IF IsItem(x.e[i]) THEN Norm(x.e[i]) ELSE IF IsEllEl(x.e[i]) THEN [ell |-> x.e[i].ell] ELSE [var |-> x.e[i].var]]]
           ELSE IF x.f = "A" THEN (IF "var" \in DOMAIN x THEN [f |-> "A", var |-> x.var, lo |-> Bound(x.lo), hi |-> Bound(x.hi)]
                                   ELSE [f |-> "A", s |-> x.s])
           ELSE [f |-> x.f, e |-> [i \in 1..Len(x.e) |-> NormEl(x.e[i])]]
\* a recorded message as a MessageOps record (item in normal form)
Rec(a) == [name |-> a.name, s |-> a.s, f |-> a.f, w |-> WNum(a.w), dir |-> a.dir, item |-> Norm(a.item), sid |-> a.sid, sys |-> a.sys]
IsRefusal(r) == "refused" \in DOMAIN r

\* ------------------------------------------------------------------ what each call must produce
MsgAt(i) == Rec(pool[i].abs)
ItemAt(i) == pool[i].abs
\* a fill: repeat counts first (the documented expansion), then the values; an item filled into a variable of a list is
\* inserted as it is (its own variables are not touched by this call). Where a name would occur twice, the fill is refused.
FillExp(item, op) ==
  LET t1 == IF item.f = "L" THEN Spec(item, op.cnt) ELSE item
      t2 == IF item.f = "L" THEN SpecNumbered(item, op.cnt) ELSE item IN
  [ok |-> NoDup(Vars(t1)) /\ NoDup(Vars(Subst(t1, op.sigma))), exp |-> Subst(t1, op.sigma), alt |-> Subst(t2, op.sigma)]
\* expected result of a producer: a message record, or Refused
Expected(op) ==
  CASE op.k = "setwait"    -> WaitBitRes(MsgAt(op.id), op.b)
    [] op.k = "setsession" -> SessionRes(MsgAt(op.id), op.sid, op.sys)
    [] op.k = "fillmsg"    -> FillRes(MsgAt(op.id), Norm(FillExp(pool[op.id].abs.item, op).exp))
    [] op.k = "newmsg"     -> NewRes(op.name, op.s, op.f, op.w, op.dir, Norm(ItemAt(op.item)))
    [] op.k = "newhsms"    -> IF op.w \notin {0, 1} \/ op.sid = -1 \/ Vars(ItemAt(op.item)) # <<>> THEN Refused
                              ELSE OrRefuse([name |-> op.name, s |-> op.s, f |-> op.f, w |-> op.w, dir |-> op.dir,
                                             item |-> Norm(ItemAt(op.item)), sid |-> op.sid, sys |-> Pad4(op.sys)])
    [] op.k = "decode"     -> LET x == MsgAt(op.id) IN
                              IF x.w = 2 \/ x.sid = -1 \/ Vars(pool[op.id].abs.item) # <<>> THEN Refused
                              ELSE [x EXCEPT !.name = <<>>, !.dir = "H<->E"]
NameFree(op) == op.k = "decode"      \* name and direction are not on the wire
\* what a message encodes to follows from its fields: the E37 frame of the fields once it is complete, nothing before
MsgBytes(a) == IF a.w # "optional" /\ a.sid # -1 /\ Vars(a.item) = <<>> THEN EncMsg(MsgOf(a, ByteLevel(a.item))) ELSE <<>>
BytesFollow(e) == (e.res.kind = "msg" /\ "bytes" \in DOMAIN e.res) => e.res.bytes = MsgBytes(e.res.abs)
C18Holds(e) ==
  LET op == e.op IN
  IF op.k = "fillmsg" THEN
     LET fx == FillExp(pool[op.id].abs.item, op) IN
     IF ~fx.ok THEN e.res.outcome = "refused"
     ELSE /\ e.res.outcome = "new" /\ e.res.kind = "msg"
          /\ Rec(e.res.abs) = FillRes(MsgAt(op.id), Norm(fx.exp)) \/ Rec(e.res.abs) = FillRes(MsgAt(op.id), Norm(fx.alt))
          /\ RepOK(Rec(e.res.abs)) /\ BytesFollow(e)
  ELSE IF op.k \in {"setwait", "setsession", "newmsg", "newhsms", "decode"} THEN
     LET exp == Expected(op) IN
     IF IsRefusal(exp) THEN e.res.outcome = "refused"
     ELSE /\ e.res.outcome \in {"new", "same"}
          /\ e.res.kind = "msg"
          /\ Rec(e.res.abs) = exp                       \* every field: the named ones changed, all others carried over
          /\ RepOK(Rec(e.res.abs))                       \* same validity rules as a freshly constructed message
          /\ BytesFollow(e)                              \* ... and the bytes it hands out are those of its fields
          /\ (e.res.outcome = "same" => (op.k = "setwait" /\ MsgAt(op.id).w # 2))
  ELSE IF op.k = "fillitem" THEN
     LET fx == FillExp(ItemAt(op.id), op) IN
     IF ~fx.ok THEN e.res.outcome = "refused"
     ELSE e.res.outcome = "new" /\ (Norm(e.res.abs) = Norm(fx.exp) \/ Norm(e.res.abs) = Norm(fx.alt))
  ELSE IF op.k = "newlist" THEN
     e.res.outcome = "new" =>
        Norm(e.res.abs) = [f |-> "L", e |-> [i \in 1..Len(op.args) |->
                              IF "id" \in DOMAIN op.args[i] THEN Norm(ItemAt(op.args[i].id))
                              ELSE IF "ell" \in DOMAIN op.args[i] THEN [ell |-> op.args[i].ell] ELSE [var |-> op.args[i].var]]]
  ELSE IF op.k \in {"newctrl", "decodectrl"} THEN
     \* a control message holds the ten header bytes it was given (shorter input padded with zeros)
     (e.res.outcome = "new" => e.res.abs.hdr = [i \in 1..10 |-> IF i <= Len(op.hdr) THEN op.hdr[i] ELSE 0])
  ELSE TRUE
\* C11: after the call - and after the caller has scribbled over everything it passed in or got back -
\* every object that existed before is observed exactly as before
C11Holds(e) == Len(e.dig) >= Len(dig) /\ SubSeq(e.dig, 1, Len(dig)) = dig
               /\ Len(e.dig) = Len(dig) + (IF e.res.outcome = "new" THEN 1 ELSE 0)
               \* ... and a new object is what it was before the caller overwrote the arguments it was made from
               /\ (e.res.outcome = "new" => e.dig[Len(e.dig)] = e.newdig)

TInit == l = 0 /\ pool = <<>> /\ dig = <<>> /\ verdict = OK
Consume(k) == LET e == Trace[k] IN
   /\ l' = k
   /\ IF e.ev = "reset" THEN pool' = <<>> /\ dig' = <<>> /\ verdict' = OK
      ELSE /\ verdict' = IF "masked" \in DOMAIN e THEN OK ELSE [c11 |-> C11Holds(e), c18 |-> C18Holds(e)]
           /\ pool' = IF e.res.outcome = "new" THEN Append(pool, [kind |-> e.res.kind, abs |-> e.res.abs]) ELSE pool
           /\ dig' = e.dig
TNext == \/ l = 0 /\ \E k \in {k \in 1..Len(Trace) : Trace[k].ev = "reset"} : Consume(k)
         \/ l > 0 /\ l < Len(Trace) /\ Trace[l + 1].ev # "reset" /\ Consume(l + 1)
TSpec == TInit /\ [][TNext]_tvars
InvC11 == verdict.c11
InvC18 == verdict.c18
=====================================================================
