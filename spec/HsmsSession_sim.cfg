SPECIFICATION Spec
CONSTANTS
  MaxSys = 6
  MaxChan = 2
  Depth = 14
INVARIANTS Dump
CHECK_DEADLOCK FALSE
