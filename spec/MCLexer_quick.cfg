SPECIFICATION Spec
CONSTANTS
  N = 3
  AsIsD10 = FALSE
  AsIsD12 = FALSE
INVARIANTS TokensWellPlaced OperatorForm
PROPERTIES Progress OneTokenPerStep Terminates
CHECK_DEADLOCK FALSE
