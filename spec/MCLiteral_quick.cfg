SPECIFICATION LitSpec
CONSTANTS
  Widths = {8, 16, 32, 64}
  Zeros = {0}
  Positions = {1}
  AsIsD10 = FALSE
  AsIsD12 = FALSE
INVARIANTS Agrees Lemmas EmitCase
CHECK_DEADLOCK FALSE
