---------------------------- MODULE SmlLexer ----------------------------
(* The SML lexer of pkg/parser/sml/lexer.go: a state machine with one       *)
(* action per stateFn invocation (header, text, comment, number, size,      *)
(* quoted, eof), each emitting at most one token.                           *)
(*                                                                          *)
(* `input` is the text as a sequence of chars, all integers: an ASCII char  *)
(* is its code; anything else is 1000000 + width*100000 + class*1000 +      *)
(* lastByte with class 1 space, 2 letter, 3 digit, 4 other, 5 invalid byte  *)
(* (the harness decodes UTF-8 and classifies with Go's unicode package).    *)
(* Positions are numbers of chars consumed; the next char is At(p + 1).     *)
(* Use as   Lx(t) == INSTANCE SmlLexer WITH input <- t, ...                 *)
EXTENDS Integers, Sequences
CONSTANTS input,
          AsIsD10,  \* a quoted string may begin with a line break (j > 0 instead of j >= 0)
          AsIsD12   \* the header state skips only the four ASCII blanks, so other white space starts a name

N == Len(input)
At(i) == IF i >= 1 /\ i <= N THEN input[i] ELSE -1          \* -1 = eof
Cls(c) == (c \div 1000) % 100
WidthOf(c) == IF c < 1000000 THEN 1 ELSE (c \div 100000) % 10
Blank4 == {32, 9, 13, 10}
AsciiSpace == {9, 10, 11, 12, 13, 32}
IsSpace(c) == c \in AsciiSpace \/ (c >= 1000000 /\ Cls(c) = 1)
Digits == 48..57
HexDigits == Digits \cup (65..70) \cup (97..102)
IsDigit(c) == c \in Digits
IsAlpha(c) == (c >= 65 /\ c <= 90) \/ (c >= 97 /\ c <= 122)
WordSet == Digits \cup (65..90) \cup (97..122) \cup {95}
IsAlnumU(c) == c \in WordSet \/ (c >= 1000000 /\ Cls(c) \in {2, 3})
Upper(c) == IF c >= 97 /\ c <= 122 THEN c - 32 ELSE c

RECURSIVE SkipIn(_, _)      \* first index >= i whose char is not in S
SkipIn(S, i) == IF At(i) \in S THEN SkipIn(S, i + 1) ELSE i
RECURSIVE SkipSpace(_)      \* first index >= i whose char is not white space
SkipSpace(i) == IF At(i) # -1 /\ IsSpace(At(i)) THEN SkipSpace(i + 1) ELSE i
RECURSIVE FindIn(_, _)      \* first index >= i whose char is in S, 0 if none
FindIn(S, i) == IF i > N THEN 0 ELSE IF At(i) \in S THEN i ELSE FindIn(S, i + 1)

Slash2(p) == At(p + 1) = 47 /\ At(p + 2) = 47
MatchSF(p) ==                       \* ^[Ss]\d+[Ff]\d+
  IF Upper(At(p + 1)) # 83 THEN -1 ELSE
  LET d1 == SkipIn(Digits, p + 2) IN
  IF d1 = p + 2 \/ Upper(At(d1)) # 70 THEN -1 ELSE
  LET d2 == SkipIn(Digits, d1 + 1) IN
  IF d2 = d1 + 1 THEN -1 ELSE d2 - 1
MatchWait(p) ==                     \* ^([Ww]|\[[Ww]\])
  IF Upper(At(p + 1)) = 87 THEN p + 1
  ELSE IF At(p + 1) = 91 /\ Upper(At(p + 2)) = 87 /\ At(p + 3) = 93 THEN p + 3 ELSE -1
MatchDir(p) ==                      \* ^[Hh](->|<->|<-)[Ee]
  IF Upper(At(p + 1)) # 72 THEN -1
  ELSE IF At(p + 2) = 45 /\ At(p + 3) = 62 /\ Upper(At(p + 4)) = 69 THEN p + 4
  ELSE IF At(p + 2) = 60 /\ At(p + 3) = 45 /\ At(p + 4) = 62 /\ Upper(At(p + 5)) = 69 THEN p + 5
  ELSE IF At(p + 2) = 60 /\ At(p + 3) = 45 /\ Upper(At(p + 4)) = 69 THEN p + 4
  ELSE -1
Bracketed(e) ==                     \* \[\d+\] right after position e: new position, or e
  IF At(e + 1) = 91 THEN LET d == SkipIn(Digits, e + 2) IN IF d > e + 2 /\ At(d) = 93 THEN d ELSE e ELSE e
MatchEll(p) == IF At(p + 1) = 46 /\ At(p + 2) = 46 /\ At(p + 3) = 46 THEN Bracketed(p + 3) ELSE -1
RECURSIVE VarSuf(_)
VarSuf(e) == LET b == Bracketed(e) IN IF b = e THEN e ELSE VarSuf(b)
RECURSIVE NameEnd(_)                \* a name runs to eof, white space, or a "//"
NameEnd(i) == IF At(i) = -1 \/ IsSpace(At(i)) \/ (At(i) = 47 /\ At(i + 1) = 47) THEN i - 1 ELSE NameEnd(i + 1)

UpperSeq(s, e) == [i \in 1..(e - s) |-> Upper(input[s + i])]
TypeNames == { <<76>>, <<65>>, <<66>>, <<66,79,79,76,69,65,78>>, <<70,52>>, <<70,56>>,
               <<73,49>>, <<73,50>>, <<73,52>>, <<73,56>>, <<85,49>>, <<85,50>>, <<85,52>>, <<85,56>> }
BoolNames == { <<84>>, <<70>> }

\* lexer state: pos, start, state (the stateFn to run next), last (lastState), out (tokens), steps (log of stateFn runs)
Log(st) == Append(st.steps, [state |-> st.state, pos |-> st.pos, start |-> st.start])
Emit(st, typ, s, e, next) == [st EXCEPT !.out = Append(@, [typ |-> typ, s |-> s, e |-> e]),
                                        !.pos = e, !.start = e, !.state = next, !.last = st.state, !.steps = Log(st)]
Fail(st, s) == [st EXCEPT !.out = Append(@, [typ |-> "Error", s |-> s, e |-> s]), !.state = "done", !.last = st.state, !.steps = Log(st)]
Goto(st, p, s, next) == [st EXCEPT !.pos = p, !.start = s, !.state = next, !.last = st.state, !.steps = Log(st)]

StepHeader(st) ==
  LET p == (IF AsIsD12 THEN SkipIn(Blank4, st.pos + 1) ELSE SkipSpace(st.pos + 1)) - 1
      c == At(p + 1) IN
  IF Slash2(p) THEN Goto(st, p, p, "comment")
  ELSE IF MatchSF(p) # -1 THEN Emit(st, "StreamFunction", p, MatchSF(p), "header")
  ELSE IF MatchWait(p) # -1 THEN Emit(st, "WaitBit", p, MatchWait(p), "header")
  ELSE IF MatchDir(p) # -1 THEN Emit(st, "Direction", p, MatchDir(p), "header")
  ELSE IF c = -1 THEN Goto(st, p, p, "eof")
  ELSE IF c = 46 THEN Emit(st, "MessageEnd", p, p + 1, "header")
  ELSE IF c = 60 THEN Emit(st, "LAB", p, p + 1, "text")
  ELSE Emit(st, "MessageName", p, NameEnd(p + 2), "header")

StepText(st) ==
  LET p == SkipIn(Blank4, st.pos + 1) - 1
      c == At(p + 1) IN
  IF Slash2(p) THEN Goto(st, p, p, "comment")
  ELSE IF MatchEll(p) # -1 THEN Emit(st, "Ellipsis", p, MatchEll(p), "text")
  ELSE IF IsAlpha(c) \/ c = 95 THEN
       LET e == SkipIn(WordSet, p + 2) - 1
           kw == UpperSeq(p, e) IN
       IF kw \in TypeNames THEN Emit(st, "DataItemType", p, e, "text")
       ELSE IF kw \in BoolNames THEN Emit(st, "Bool", p, e, "text")
       ELSE Emit(st, "Variable", p, VarSuf(e), "text")
  ELSE IF c \in {43, 45} \/ IsDigit(c) \/ (c = 46 /\ IsDigit(At(p + 2))) THEN Goto(st, p, p, "number")
  ELSE IF c = -1 THEN Goto(st, p, p, "eof")
  ELSE IF c = 60 THEN Emit(st, "LAB", p, p + 1, "text")
  ELSE IF c = 62 THEN Emit(st, "RAB", p, p + 1, "text")
  ELSE IF c = 46 THEN Emit(st, "MessageEnd", p, p + 1, "header")
  ELSE IF c = 91 THEN Goto(st, p, p, "size")
  ELSE IF c = 34 THEN Goto(st, p, p, "quoted")
  ELSE Fail(st, p)

\* a comment runs to the end of the line; trailing ASCII blanks (the \r of a CRLF) are not part of it
StepComment(st) ==
  LET nl == FindIn({10}, st.pos + 1) IN
  IF nl = 0 THEN Emit(st, "Comment", st.start, N, "eof")
  ELSE LET RECURSIVE Trim(_)
           Trim(e) == IF At(e) \in {9, 13, 32} THEN Trim(e - 1) ELSE e
       IN [Emit(st, "Comment", st.start, Trim(nl - 1), st.last) EXCEPT !.last = "comment"]

StepNumber(st) ==
  LET p0 == st.pos
      p1 == IF At(p0 + 1) \in {43, 45} THEN p0 + 1 ELSE p0
      z  == At(p1 + 1) = 48
      p2 == IF z THEN p1 + 1 ELSE p1
      pre == IF z /\ At(p2 + 1) \in {120, 88} THEN "x" ELSE IF z /\ At(p2 + 1) \in {98, 66} THEN "b"
             ELSE IF z /\ At(p2 + 1) \in {111, 79} THEN "o" ELSE "d"
      p3 == IF pre # "d" THEN p2 + 1 ELSE p2
      DS == IF pre = "x" THEN HexDigits ELSE IF pre = "b" THEN {48, 49} ELSE IF pre = "o" THEN 48..55 ELSE Digits
      p4 == SkipIn(DS, p3 + 1) - 1
      p5 == IF At(p4 + 1) = 46 THEN SkipIn(DS, p4 + 2) - 1 ELSE p4
      p6 == IF At(p5 + 1) \in {101, 69}
            THEN LET q == IF At(p5 + 2) \in {43, 45} THEN p5 + 2 ELSE p5 + 1 IN SkipIn(Digits, q + 1) - 1
            ELSE p5
  IN IF IsAlnumU(At(p6 + 1)) THEN Fail(st, st.start) ELSE Emit(st, "Number", p0, p6, "text")

\* inside a size declaration blanks, line breaks and line comments separate the parts
RECURSIVE SkipBC(_)     \* first index >= i that is neither a blank nor inside a // comment (N + 1 if a comment runs to the end)
SkipBC(i) == LET j == SkipIn(Blank4, i) IN
             IF At(j) = 47 /\ At(j + 1) = 47 THEN (LET nl == FindIn({10}, j) IN IF nl = 0 THEN N + 1 ELSE SkipBC(nl)) ELSE j
StepSize(st) ==
  LET a  == st.pos + 1                                   \* '[' consumed
      b  == SkipBC(a + 1) - 1
      h1 == IsDigit(At(b + 1))
      c1 == IF h1 THEN SkipBC(SkipIn(Digits, b + 1)) - 1 ELSE b
      dd == At(c1 + 1) = 46 /\ At(c1 + 2) = 46
      d0 == IF dd THEN SkipBC(c1 + 3) - 1 ELSE c1
      h2 == dd /\ IsDigit(At(d0 + 1))
      d1 == IF h2 THEN SkipBC(SkipIn(Digits, d0 + 1)) - 1 ELSE d0
  IN IF At(d1 + 1) = 93 /\ (h1 \/ h2) THEN Emit(st, "Size", st.pos, d1 + 1, "text") ELSE Fail(st, st.start)

StepQuoted(st) ==
  LET a  == st.pos + 1                                   \* opening quote consumed
      qi == FindIn({34}, a + 1)
      nj == FindIn({10, 13}, a + 1)
      brk == nj # 0 /\ nj < qi /\ (~AsIsD10 \/ nj > a + 1)
  IN IF qi = 0 \/ brk THEN Fail(st, st.start) ELSE Emit(st, "QuotedString", st.pos, qi, "text")

StepEOF(st) == [st EXCEPT !.out = Append(@, [typ |-> "EOF", s |-> st.start, e |-> st.start]), !.state = "done", !.steps = Log(st)]

Step(st) == CASE st.state = "header" -> StepHeader(st)
              [] st.state = "text" -> StepText(st)
              [] st.state = "comment" -> StepComment(st)
              [] st.state = "number" -> StepNumber(st)
              [] st.state = "size" -> StepSize(st)
              [] st.state = "quoted" -> StepQuoted(st)
              [] st.state = "eof" -> StepEOF(st)
RECURSIVE RunFrom(_)
RunFrom(st) == IF st.state = "done" THEN st ELSE RunFrom(Step(st))
St0 == [pos |-> 0, start |-> 0, state |-> "header", last |-> "header", out |-> <<>>, steps |-> <<>>]
St0Text == [St0 EXCEPT !.state = "text", !.last = "text"]
Run == RunFrom(St0)
\* termination measure of one step: chars left, then the rank of the state
Rank(s) == CASE s \in {"header", "text"} -> 2 [] s = "done" -> 0 [] OTHER -> 1
Measure(st) == 3 * (N - st.pos) + Rank(st.state)

\* observable form of a token: type, value chars, line, column (runes)
RECURSIVE CountNL(_, _), LastNL(_)
CountNL(i, acc) == IF i = 0 THEN acc ELSE CountNL(i - 1, IF input[i] = 10 THEN acc + 1 ELSE acc)
LastNL(i) == IF i = 0 THEN 0 ELSE IF input[i] = 10 THEN i ELSE LastNL(i - 1)
RawVal(t) == [i \in 1..(t.e - t.s) |-> input[t.s + i]]
RECURSIVE DropSpace(_)
\* the value of a size token: its characters without white space and without line comments
DropSpace(s) == IF s = <<>> THEN <<>>
                ELSE IF Len(s) >= 2 /\ s[1] = 47 /\ s[2] = 47
                     THEN LET RECURSIVE ToNL(_)
                              ToNL(t) == IF t = <<>> \/ Head(t) = 10 THEN t ELSE ToNL(Tail(t))
                          IN DropSpace(ToNL(s))
                ELSE (IF IsSpace(Head(s)) THEN <<>> ELSE <<Head(s)>>) \o DropSpace(Tail(s))
Val(t) == IF t.typ = "Error" THEN <<>>
          ELSE IF t.typ = "EOF" THEN <<69, 79, 70>>
          ELSE IF t.typ \in {"StreamFunction", "WaitBit", "Direction", "DataItemType", "Bool"} THEN UpperSeq(t.s, t.e)
          ELSE IF t.typ = "Size" THEN DropSpace(RawVal(t))
          ELSE RawVal(t)
LC(s) == IF s < 0 THEN <<0, 0>> ELSE <<1 + CountNL(s, 0), 1 + s - LastNL(s)>>
Obs(t) == [t |-> t.typ, v |-> Val(t), l |-> LC(t.s)[1], c |-> LC(t.s)[2]]
\* the token stream nextToken delivers: after an Error the channel is closed and a bare EOF follows
TokensOf(st) == LET r == st.out
                    o == [i \in 1..Len(r) |-> Obs(r[i])]
                IN IF Len(r) > 0 /\ r[Len(r)].typ = "Error" THEN Append(o, [t |-> "EOF", v |-> <<>>, l |-> 0, c |-> 0]) ELSE o
Tokens == TokensOf(Run)
\* byte offset of a char position
RECURSIVE BytePos(_)
BytePos(p) == IF p <= 0 THEN 0 ELSE BytePos(p - 1) + WidthOf(input[p])
StepsOf(st) == [i \in 1..Len(st.steps) |-> [state |-> st.steps[i].state, pos |-> BytePos(st.steps[i].pos), start |-> BytePos(st.steps[i].start)]]
Lines == 1 + CountNL(N, 0)
=====================================================================
