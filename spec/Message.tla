---------------------------- MODULE Message ----------------------------
(* The DataMessage life cycle as a transition system over a pool of         *)
(* immutable values (pkg/ast/ast.go).  Producers append to the pool and     *)
(* never write it otherwise; the environment may scribble over any slice    *)
(* it passed in or got back.                                                *)
(*   C11: the pool is append-only (AppendOnly)                              *)
(*   C18: each producer changes exactly the fields it names (Frame) and     *)
(*        its result satisfies the factory's validity rules (RepOK)         *)
(*   C02/C16: a message encodes iff it is complete                          *)
(* The producer functions (WaitBitRes, SessionRes, ...) are shared with the *)
(* trace specification TraceMessage, which applies them to real histories.  *)
EXTENDS MessageOps, TLC, Json
CONSTANT MaxPool, Depth

\* ------------------------------------------------------------------ the bounded model
VARIABLES pool, last, hist     \* last = the step just taken, hist = the history (simulation only); hidden by the VIEW
vars == <<pool, last, hist>>
View == pool
Items == {"none", "lit", "var"}                 \* no item | <U1 5> | <U1 x>
ItemBytes(it) == IF it = "lit" THEN [c |-> 41, b |-> <<5>>] ELSE NONE
SidArgs == {-2, -1, 7, 65535, 65536}
SysArgs == {<<1, 2>>, <<1, 2, 3, 4, 5>>, <<>>, <<0, 0, 0, 1>>, <<1>>, <<0, 1>>}   \* (the last three: the same number, right-aligned)
Complete(x) == x.w # 2 /\ x.item # "var" /\ x.sid # -1
Bytes(x) == IF ~Complete(x) THEN <<>>
            ELSE EncMsg([kind |-> "data", sid |-> x.sid, w |-> x.w, s |-> x.s, f |-> x.f, sys |-> x.sys, item |-> ItemBytes(x.item)])
Obs(x) == x @@ [bytes |-> Bytes(x), vars |-> IF x.item = "var" THEN <<"x">> ELSE <<>>]
Record(op, res) == last' = [op |-> op, res |-> res] /\ hist' = IF Depth = 0 THEN hist ELSE Append(hist, [op |-> op, res |-> res])
Produce(op, r) == IF "refused" \in DOMAIN r THEN UNCHANGED pool /\ Record(op, Refused)
                  ELSE pool' = Append(pool, r) /\ Record(op, Obs(r))
New == \E s \in {1, 127, 128}, f \in {1, 2, 256}, w \in {0, 1, 2, 3}, it \in Items :
         Produce([k |-> "New", name |-> "n", s |-> s, f |-> f, w |-> w, dir |-> "H->E", item |-> it],
                 NewRes("n", s, f, w, "H->E", it))
SetWaitBit == \E i \in DOMAIN pool, b \in BOOLEAN :
         IF pool[i].w # 2 THEN UNCHANGED pool /\ Record([k |-> "SetWaitBit", id |-> i, b |-> b], [same |-> i])
         ELSE Produce([k |-> "SetWaitBit", id |-> i, b |-> b], WaitBitRes(pool[i], b))
SetSession == \E i \in DOMAIN pool, sid \in SidArgs, sys \in SysArgs :
         Produce([k |-> "SetSession", id |-> i, sid |-> sid, sys |-> sys], SessionRes(pool[i], sid, sys))
Fill == \E i \in DOMAIN pool, key \in {"x", "y"} :
         Produce([k |-> "Fill", id |-> i, key |-> key, val |-> 5],
                 FillRes(pool[i], IF pool[i].item = "var" /\ key = "x" THEN "lit" ELSE pool[i].item))
\* environment: the caller scribbles over a slice it passed in or got back; no pool entry may change
Scribble == \E i \in DOMAIN pool, what \in {"SystemBytes", "ToBytes", "Variables"} :
         UNCHANGED pool /\ Record([k |-> "Scribble", id |-> i, what |-> what], [same |-> i])
Init == pool = <<>> /\ hist = <<>> /\ last = [op |-> [k |-> "Init"], res |-> [same |-> 0]]
Next == Len(pool) < MaxPool /\ (Depth = 0 \/ Len(hist) < Depth) /\ (New \/ SetWaitBit \/ SetSession \/ Fill \/ Scribble)
Spec == Init /\ [][Next]_vars

AppendOnly == [][\A i \in DOMAIN pool : pool'[i] = pool[i]]_vars
Frame == [][(Len(pool') = Len(pool) + 1 /\ last'.op.k \in {"SetWaitBit", "SetSession", "Fill"}) =>
              LET o == pool[last'.op.id]  n == pool'[Len(pool')]  k == last'.op.k IN
              /\ n.name = o.name /\ n.s = o.s /\ n.f = o.f /\ n.dir = o.dir
              /\ (k # "SetWaitBit" => n.w = o.w) /\ (k # "Fill" => n.item = o.item)
              /\ (k # "SetSession" => n.sid = o.sid /\ n.sys = o.sys)]_vars
AllRepOK == \A i \in DOMAIN pool : RepOK(pool[i]) /\ (Bytes(pool[i]) # <<>> <=> Complete(pool[i]))
\* every way of being incomplete occurs and encodes to nothing (vacuity guard: checked to be violated by selftest)
Dump == Depth = 0 \/ Len(hist) < Depth \/ PrintT("CASE " \o ToJson(hist))
=====================================================================
