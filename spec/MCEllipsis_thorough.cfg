SPECIFICATION MSpec
CONSTANTS
  MaxItems = 2
  MaxCount = 2
  EmitEvery = 499
INVARIANTS Correct Fillable EmitCase
CHECK_DEADLOCK FALSE
