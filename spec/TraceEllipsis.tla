---------------------------- MODULE TraceEllipsis ----------------------------
(* Trace validation of ellipsis expansion (C10): results of the real         *)
(* ListNode.FillVariables against the declarative expansion, and the        *)
(* recorded fillState hook events against the code-shaped machine.          *)
EXTENDS Ellipsis, Json, TLC
CONSTANT ChunkSize
Trace == ndJsonDeserialize("trace.ndjson")
VARIABLE l
E == Trace[l]
TInit == l = 0
TNext == \/ l = 0 /\ l' \in {-k : k \in {j \in 1..Len(Trace) : j % ChunkSize = 1 \/ ChunkSize = 1}}   \* enter a chunk (no check yet,
         \/ l < 0 /\ l' = -l                                  \* so that chunk heads are checked by different workers)
         \/ l > 0 /\ l < Len(Trace) /\ l % ChunkSize # 0 /\ l' = l + 1
TSpec == TInit /\ [][TNext]_l
\* normal form: elements reduced to what identifies them (ASCII bounds as numbers, integers by value)
NormEl(x) == IF "var" \in DOMAIN x THEN [var |-> x.var]
             ELSE IF "b" \in DOMAIN x THEN [b |-> x.b]
             ELSE IF "t" \in DOMAIN x THEN [t |-> x.t]
             ELSE IF "bits" \in DOMAIN x THEN [bits |-> x.bits]
             ELSE OfJson(x)
RECURSIVE Norm(_)
Norm(x) == IF x.f = "L" THEN [f |-> "L", e |-> [i \in 1..Len(x.e) |->
                   IF IsItem(x.e[i]) THEN Norm(x.e[i]) ELSE IF IsEllEl(x.e[i]) THEN [ell |-> x.e[i].ell] ELSE [var |-> x.e[i].var]]]
           ELSE IF x.f = "A" THEN (IF "var" \in DOMAIN x THEN [f |-> "A", var |-> x.var, lo |-> Bound(x.lo), hi |-> Bound(x.hi)]
                                   ELSE [f |-> "A", s |-> x.s])
           ELSE [f |-> x.f, e |-> [i \in 1..Len(x.e) |-> NormEl(x.e[i])]]
\* A template may hold names of the very shape the expansion generates (x next to x[0]). Where the documented
\* expansion would then give one name twice, the only way to keep the names unique is to refuse.
PropC10(e) == e.ev = "ell" =>
  LET t == e.tmpl.abs  want == Spec(t, e.cnt) IN
  IF ~NoDup(Vars(want)) THEN e.res.outcome = "refused"
  ELSE
  /\ e.res.outcome = "ok"
  \* the documented expansion; a single remaining ellipsis may be called ... or ...[0]
  /\ Norm(e.res.abs) = Norm(want) \/ Norm(e.res.abs) = Norm(SpecNumbered(t, e.cnt))
  /\ NoDup(e.res.vars)                                                  \* all names stay unique
  /\ e.res.vars = Vars(e.res.abs)
  \* each generated name can be filled individually: exactly that name disappears
  /\ \A i \in 1..Len(e.follow) : LET f == e.follow[i] IN
        f.ok /\ f.vars = SelectSeq(e.res.vars, LAMBDA nm : nm # f.name)
  \* TLC -> Go replay: the expansion the model computed for this case
  /\ "want" \in DOMAIN e => (Norm(e.res.abs) = Norm(e.want) \/ Norm(e.res.abs) = Norm(SpecNumbered(t, e.cnt)))
AgreeC10(e) == (e.ev = "ell" /\ e.res.outcome = "ok") =>
  LET r == Machine(e.tmpl.abs, e.cnt) IN
  /\ Norm(e.res.abs) = Norm(r.t)
  /\ e.hooks = r.log
InvC10 == l > 0 => PropC10(E)
InvAgreeC10 == l > 0 => AgreeC10(E)
=====================================================================
