---------------------------- MODULE ControlMsg ----------------------------
(* HSMS control messages (SEMI E37 section 8.3): each kind as a function    *)
(* into the 10 header bytes, the message type as a function of              *)
(* (PType, SType), and the request / response pairing.                      *)
(* Header bytes (1-based here): 1-2 session id, 3 byte 2, 4 byte 3,         *)
(* 5 PType, 6 SType, 7-10 system bytes.                                     *)
EXTENDS Integers, Sequences
Kinds == {"select.req", "select.rsp", "deselect.req", "deselect.rsp", "linktest.req", "linktest.rsp", "reject.req", "separate.req"}
STypeOf(k) == CASE k = "select.req" -> 1 [] k = "select.rsp" -> 2 [] k = "deselect.req" -> 3 [] k = "deselect.rsp" -> 4
                [] k = "linktest.req" -> 5 [] k = "linktest.rsp" -> 6 [] k = "reject.req" -> 7 [] k = "separate.req" -> 9
\* total over all 65,536 pairs
TypeOf(ptype, stype) == IF ptype # 0 THEN "undefined"
                        ELSE IF \E k \in Kinds : STypeOf(k) = stype THEN CHOOSE k \in Kinds : STypeOf(k) = stype
                        ELSE IF stype = 0 THEN "data message" ELSE "undefined"
Hi(n) == n \div 256
Lo(n) == n % 256
Header(sid, b2, b3, stype, sys) == <<Hi(sid), Lo(sid), b2, b3, 0, stype>> \o sys
SelectReq(sid, sys)     == Header(sid, 0, 0, 1, sys)
DeselectReq(sid, sys)   == Header(sid, 0, 0, 3, sys)
LinktestReq(sys)        == Header(65535, 0, 0, 5, sys)
SeparateReq(sid, sys)   == Header(sid, 0, 0, 9, sys)
\* reject: byte 2 carries the rejected message's PType when the reason is 2 (PType not supported), else its SType
RejectReq(sid, ptype, stype, sys, reason) == Header(sid, IF reason = 2 THEN ptype ELSE stype, reason, 7, sys)
\* responses echo session id and system bytes of the request
SidOf(h) == h[1] * 256 + h[2]
SysOf(h) == SubSeq(h, 7, 10)
SelectRsp(req, status)   == Header(SidOf(req), 0, status, 2, SysOf(req))
DeselectRsp(req, status) == Header(SidOf(req), 0, status, 4, SysOf(req))
LinktestRsp(req)         == Header(65535, 0, 0, 6, SysOf(req))
\* which request kind a response constructor accepts
RequestKindFor(k) == CASE k = "select.rsp" -> "select.req" [] k = "deselect.rsp" -> "deselect.req" [] k = "linktest.rsp" -> "linktest.req"
Wire(h) == <<0, 0, 0, 10>> \o h
=====================================================================
