---------------------------- MODULE SmlParser ----------------------------
(* The SML parser of pkg/parser/sml/parser.go as a recursive descent over   *)
(* the token stream of SmlLexer, threading a state record                   *)
(*   ps = [i (next token), vars (names seen in this message), ell (ellipsis *)
(*         counter), errs, warns (token start positions)].                  *)
(* It is the statement of the SML grammar the properties refer to: which    *)
(* texts are accepted, what the literals denote (bignum layer of Num),      *)
(* how size declarations are enforced, what is scoped to one message, and   *)
(* where diagnostics point.  Decimal -> binary conversion of floats is not  *)
(* restated: `floats` is an oracle [tok, w, range, bits] supplied by the    *)
(* harness (strconv.ParseFloat) for the number tokens of the text.          *)
(* Use as   P(t, fo) == INSTANCE SmlParser WITH input <- t, floats <- fo    *)
EXTENDS SmlLexer, Num, FiniteSets
CONSTANT floats

Lower(c) == IF c >= 65 /\ c <= 90 THEN c + 32 ELSE c
DigitVal(c) == IF c >= 48 /\ c <= 57 THEN c - 48 ELSE IF Lower(c) >= 97 /\ Lower(c) <= 122 THEN Lower(c) - 87 ELSE 99
MaxInt64 == HalfM1(64)

\* strconv.ParseUint(s, 0, bits): [syn, rng, mag]   (base prefixes 0x 0b 0o, a leading 0 means octal)
ParseUintTok(cs, bits) ==
  LET n == Len(cs) IN
  IF n = 0 THEN [syn |-> TRUE, rng |-> FALSE, mag |-> <<>>]
  ELSE LET pref == cs[1] = 48 /\ n >= 3 /\ Lower(cs[2]) \in {98, 111, 120}
           base == IF pref THEN (IF Lower(cs[2]) = 98 THEN 2 ELSE IF Lower(cs[2]) = 111 THEN 8 ELSE 16)
                   ELSE IF cs[1] = 48 THEN 8 ELSE 10
           body == IF pref THEN SubSeq(cs, 3, n) ELSE IF cs[1] = 48 /\ n > 1 THEN SubSeq(cs, 2, n) ELSE cs
           ds == [i \in 1..Len(body) |-> DigitVal(body[i])]
       IN IF \E i \in 1..Len(ds) : ds[i] >= base THEN [syn |-> TRUE, rng |-> FALSE, mag |-> <<>>]
          ELSE LET v == FromDigits(base, ds, <<>>) IN
               IF Cmp(v, Pow2(bits)) >= 0 THEN [syn |-> FALSE, rng |-> TRUE, mag |-> MaxU(bits)]
               ELSE [syn |-> FALSE, rng |-> FALSE, mag |-> v]
\* strconv.ParseInt(s, 0, bits): [syn, rng, neg, mag]
ParseIntTok(cs, bits) ==
  IF cs = <<>> THEN [syn |-> TRUE, rng |-> FALSE, neg |-> FALSE, mag |-> <<>>]
  ELSE LET sg == cs[1] \in {43, 45}
           neg == cs[1] = 45
           u == ParseUintTok(IF sg THEN Tail(cs) ELSE cs, bits)
       IN IF u.syn THEN [syn |-> TRUE, rng |-> FALSE, neg |-> FALSE, mag |-> <<>>]
          ELSE IF ~neg /\ Cmp(u.mag, Half(bits)) >= 0 THEN [syn |-> FALSE, rng |-> TRUE, neg |-> FALSE, mag |-> HalfM1(bits)]
          ELSE IF neg /\ Cmp(u.mag, Half(bits)) > 0 THEN [syn |-> FALSE, rng |-> TRUE, neg |-> TRUE, mag |-> Half(bits)]
          ELSE [syn |-> FALSE, rng |-> FALSE, neg |-> neg /\ u.mag # <<>>, mag |-> u.mag]
\* the shape of a number token that strconv.ParseFloat accepts (decimal mantissa with at least one digit,
\* optional exponent with at least one digit; the prefixed forms are integers only)
FloatOK(cs) ==
  LET a == IF cs # <<>> /\ cs[1] \in {43, 45} THEN 2 ELSE 1
      n == Len(cs)
      pref == a + 1 <= n /\ cs[a] = 48 /\ Lower(cs[a + 1]) \in {98, 111, 120}
      RECURSIVE Run10(_)
      Run10(i) == IF i <= n /\ cs[i] >= 48 /\ cs[i] <= 57 THEN Run10(i + 1) ELSE i
      m1 == Run10(a)
      dot == m1 <= n /\ cs[m1] = 46
      m2 == IF dot THEN Run10(m1 + 1) ELSE m1
      mdig == (m1 - a) + (IF dot THEN m2 - m1 - 1 ELSE 0)
      hasE == m2 <= n /\ Lower(cs[m2]) = 101
      e1 == IF hasE /\ m2 + 1 <= n /\ cs[m2 + 1] \in {43, 45} THEN m2 + 2 ELSE m2 + 1
      e2 == IF hasE THEN Run10(e1) ELSE m2
  IN ~pref /\ mdig >= 1 /\ (~hasE \/ e2 > e1) /\ e2 = n + 1
FloatEntry(cs, w) == LET I == {i \in 1..Len(floats) : floats[i].tok = cs /\ floats[i].w = w} IN
                     IF I = {} THEN [tok |-> cs, w |-> w, range |-> FALSE, bits |-> <<>>] ELSE floats[CHOOSE i \in I : TRUE]
\* decimal digits to a size bound: strconv.Atoi saturates at MaxInt64
SizeNum(cs) == IF cs = <<>> THEN <<>>
               ELSE LET v == FromDigits(10, [i \in 1..Len(cs) |-> cs[i] - 48], <<>>) IN
                    IF Cmp(v, MaxInt64) > 0 THEN MaxInt64 ELSE v
\* small decimal (stream / function codes), capped
RECURSIVE StripZ(_)
StripZ(cs) == IF Len(cs) > 1 /\ cs[1] = 48 THEN StripZ(Tail(cs)) ELSE cs
RECURSIVE DecSmall(_, _)
DecSmall(cs, acc) == IF cs = <<>> THEN acc ELSE DecSmall(Tail(cs), acc * 10 + (Head(cs) - 48))
DecCap(cs) == IF cs = <<>> THEN 0 ELSE LET z == StripZ(cs) IN IF Len(z) > 9 THEN 1000000000 ELSE DecSmall(z, 0)

\* ------------------------------------------------------------------ parser plumbing
Tk(T, i) == IF i <= Len(T) THEN T[i] ELSE [typ |-> "EOF", s |-> -1, e |-> -1]
Err(ps, t) == [ps EXCEPT !.errs = Append(@, t.s)]
Warn(ps, t) == [ps EXCEPT !.warns = Append(@, t.s)]
OKr(ps, v) == [ok |-> TRUE, pan |-> FALSE, ps |-> ps, v |-> v]
Failr(ps) == [ok |-> FALSE, pan |-> FALSE, ps |-> ps, v |-> <<>>]
Panr(ps) == [ok |-> FALSE, pan |-> TRUE, ps |-> ps, v |-> <<>>]
HOLE == [f |-> "none"]
IsHole(x) == "f" \in DOMAIN x /\ x.f = "none"
RECURSIVE Holes(_)
Holes(vals) == IF vals = <<>> THEN 0 ELSE
   (IF IsHole(Head(vals)) THEN 1
    ELSE IF "f" \in DOMAIN Head(vals) /\ Head(vals).f = "L" THEN Holes(Head(vals).e) ELSE 0) + Holes(Tail(vals))
NumEll(vals) == Cardinality({i \in 1..Len(vals) : "ell" \in DOMAIN vals[i]})
SizeOfV(v) == IF v.f = "A" THEN (IF "s" \in DOMAIN v THEN Len(v.s) ELSE -1) ELSE Len(v.e)
FmtOf(ty) == CASE ty = <<76>> -> "L" [] ty = <<65>> -> "A" [] ty = <<66>> -> "B" [] ty = <<66,79,79,76,69,65,78>> -> "BOOLEAN"
               [] ty = <<70,52>> -> "F4" [] ty = <<70,56>> -> "F8" [] ty = <<73,49>> -> "I1" [] ty = <<73,50>> -> "I2"
               [] ty = <<73,52>> -> "I4" [] ty = <<73,56>> -> "I8" [] ty = <<85,49>> -> "U1" [] ty = <<85,50>> -> "U2"
               [] ty = <<85,52>> -> "U4" [] ty = <<85,56>> -> "U8"

\* size declaration [x] [x..] [..y] [x..y]: lo, hi as Num; hasHi = FALSE means no upper limit
SizeBounds(t) ==
  LET cs == DropSpace(RawVal(t))
      n == Len(cs)
      dd == IF \E i \in 1..(n - 1) : cs[i] = 46 /\ cs[i + 1] = 46 THEN CHOOSE i \in 1..(n - 1) : cs[i] = 46 /\ cs[i + 1] = 46 ELSE 0
  IN IF dd = 0 THEN [lo |-> SizeNum(SubSeq(cs, 2, n - 1)), hi |-> SizeNum(SubSeq(cs, 2, n - 1)), hasHi |-> TRUE]
     ELSE [lo |-> SizeNum(SubSeq(cs, 2, dd - 1)),
           hi |-> SizeNum(SubSeq(cs, dd + 2, n - 1)), hasHi |-> dd + 2 <= n - 1]
NoBounds == [lo |-> <<>>, hi |-> <<>>, hasHi |-> FALSE]
SizeBad(sz, b) == LET s == OfSmall(sz) IN
                  IF ~b.hasHi THEN Cmp(b.lo, s) > 0 ELSE ~(Cmp(b.lo, s) <= 0 /\ Cmp(s, b.hi) <= 0)
Min(a, b) == IF a < b THEN a ELSE b
SmallOf(x) == IF Len(x) > 3 THEN 16777216 ELSE (IF Len(x) >= 1 THEN x[1] ELSE 0) + (IF Len(x) >= 2 THEN x[2] * 256 ELSE 0) + (IF Len(x) >= 3 THEN x[3] * 65536 ELSE 0)

\* value tokens of a non-list item: up to '>' (not consumed); the first other token is consumed and ends the run
RECURSIVE VT(_, _, _)
VT(T, i, acc) == LET t == Tk(T, i) IN
   IF t.typ \in {"Number", "Bool", "QuotedString", "Variable"} THEN VT(T, i + 1, Append(acc, t))
   ELSE IF t.typ = "RAB" THEN [toks |-> acc, i |-> i]
   ELSE [toks |-> Append(acc, t), i |-> i + 1]

\* array items: B BOOLEAN I* U* F*
Bits(ty) == 8 * (ty[2] - 48)
RECURSIVE ArrLoop(_, _, _, _, _)
ArrLoop(ty, toks, k, ps, vals) ==
  IF k > Len(toks) THEN OKr(ps, [f |-> FmtOf(ty), e |-> vals])
  ELSE LET t == toks[k]  cs == RawVal(t) IN
    IF t.typ = "Variable" THEN
         IF cs \in ps.vars
         THEN ArrLoop(ty, toks, k + 1, Err(ps, t),
                      Append(vals, IF ty = <<66>> THEN [b |-> 0] ELSE IF Len(ty) = 7 THEN [t |-> FALSE]
                                   ELSE IF ty[1] = 70 THEN [fl |-> <<48>>] ELSE [neg |-> FALSE, mag |-> <<>>]))
         ELSE ArrLoop(ty, toks, k + 1, [ps EXCEPT !.vars = @ \cup {cs}], Append(vals, [var |-> cs]))
    ELSE IF t.typ = "Bool" /\ Len(ty) = 7 THEN ArrLoop(ty, toks, k + 1, ps, Append(vals, [t |-> UpperSeq(t.s, t.e) = <<84>>]))
    ELSE IF t.typ = "Number" /\ ty = <<66>> THEN
         LET r == ParseIntTok(cs, 64)
             inr == ~r.syn /\ ~r.rng /\ ~r.neg /\ Cmp(r.mag, <<0, 1>>) < 0
         IN ArrLoop(ty, toks, k + 1, IF inr THEN ps ELSE Err(ps, t),
                    Append(vals, [b |-> IF inr /\ r.mag # <<>> THEN r.mag[1] ELSE 0]))
    ELSE IF t.typ = "Number" /\ ty[1] = 73 /\ Len(ty) = 2 THEN
         LET r == ParseIntTok(cs, Bits(ty)) IN
         ArrLoop(ty, toks, k + 1, IF r.syn \/ r.rng THEN Err(ps, t) ELSE ps, Append(vals, [neg |-> r.neg, mag |-> r.mag]))
    ELSE IF t.typ = "Number" /\ ty[1] = 85 THEN
         LET r == ParseUintTok(cs, Bits(ty)) IN
         ArrLoop(ty, toks, k + 1, IF r.syn \/ r.rng THEN Err(ps, t) ELSE ps, Append(vals, [neg |-> FALSE, mag |-> r.mag]))
    ELSE IF t.typ = "Number" /\ ty[1] = 70 /\ Len(ty) = 2 THEN
         LET bad == ~FloatOK(cs) \/ FloatEntry(cs, Bits(ty) \div 8).range IN
         ArrLoop(ty, toks, k + 1, IF bad THEN Err(ps, t) ELSE ps, Append(vals, [fl |-> IF bad THEN <<48>> ELSE cs]))
    ELSE Failr(Err(ps, t))

\* ASCII items: quoted strings (the characters between the quotes), character codes, or one variable
RECURSIVE AscLoop(_, _, _, _, _)
AscLoop(toks, k, ps, lit, b) ==
  IF k > Len(toks) THEN OKr(ps, [f |-> "A", s |-> lit])
  ELSE LET t == toks[k]  cs == RawVal(t) IN
    IF t.typ = "QuotedString" THEN
         LET body == SubSeq(cs, 2, Len(cs) - 1) IN
         IF \E i \in 1..Len(body) : body[i] >= 128 THEN AscLoop(toks, k + 1, Err(ps, t), lit, b)
         ELSE AscLoop(toks, k + 1, ps, lit \o body, b)
    ELSE IF t.typ = "Number" THEN
         LET r == ParseUintTok(cs, 64)
             big == ~r.syn /\ Cmp(r.mag, <<127>>) > 0
         IN AscLoop(toks, k + 1, IF r.syn \/ big THEN Err(ps, t) ELSE ps,
                    Append(lit, IF r.syn \/ big \/ r.mag = <<>> THEN 0 ELSE r.mag[1]), b)
    ELSE IF t.typ = "Variable" THEN
         IF Len(toks) # 1 THEN Failr(Err(ps, t))
         ELSE IF cs \in ps.vars THEN       \* duplicated name: error, a short placeholder stands in
              OKr(Err(ps, t), [f |-> "A", s |-> [i \in 1..Min(SmallOf(b.lo), 64) |-> 42]])
         ELSE IF b.hasHi /\ Cmp(b.lo, b.hi) > 0 THEN Panr([ps EXCEPT !.vars = @ \cup {cs}])   \* refused by the factory
         ELSE OKr([ps EXCEPT !.vars = @ \cup {cs}], [f |-> "A", var |-> cs, lo |-> b.lo, hi |-> b.hi, hasHi |-> b.hasHi])
    ELSE Failr(Err(ps, t))

RECURSIVE ParseItem(_, _), ListLoop(_, _, _, _)
ListLoop(T, ps, vals, count) ==
  LET t == Tk(T, ps.i) IN
  IF t.typ = "LAB" THEN LET r == ParseItem(T, ps) IN IF ~r.ok THEN Failr(r.ps) ELSE ListLoop(T, r.ps, Append(vals, r.v), count + 1)
  ELSE IF t.typ = "Variable" THEN
       LET nm == RawVal(t)  psn == [ps EXCEPT !.i = @ + 1] IN
       IF nm \in ps.vars THEN ListLoop(T, Err(psn, t), Append(vals, HOLE), count + 1)
       ELSE ListLoop(T, [psn EXCEPT !.vars = @ \cup {nm}], Append(vals, [var |-> nm]), count + 1)
  ELSE IF t.typ = "Ellipsis" THEN
       IF count = 0 THEN Failr(Err(ps, t))
       ELSE LET k == ps.ell
                w == RawVal(t)
                psn == [ps EXCEPT !.i = @ + 1, !.ell = @ + 1]
                psw == IF w # <<46, 46, 46>> /\ w # <<46, 46, 46, 91>> \o DecChars(k) \o <<93>> THEN Warn(psn, t) ELSE psn
            IN ListLoop(T, psw, Append(vals, [ell |-> k]), count + 1)
  ELSE IF t.typ = "RAB" THEN (IF NumEll(vals) >= 2 \/ Holes(vals) >= 2 THEN Panr(ps) ELSE OKr(ps, [f |-> "L", e |-> vals]))
  ELSE Failr(Err(ps, t))

ParseItem(T, ps) ==
  LET lab == Tk(T, ps.i)
      t1 == Tk(T, ps.i + 1) IN
  IF t1.typ # "DataItemType" THEN Failr(Err(ps, t1))
  ELSE LET ty == UpperSeq(t1.s, t1.e)
           t2 == Tk(T, ps.i + 2) IN
    IF t2.typ = "Error" THEN Failr(Err(ps, t2))
    ELSE LET hasSz == t2.typ = "Size"
             b == IF hasSz THEN SizeBounds(t2) ELSE NoBounds
             i3 == IF hasSz THEN ps.i + 3 ELSE ps.i + 2
             r == IF ty = <<76>> THEN ListLoop(T, [ps EXCEPT !.i = i3], <<>>, 0)
                  ELSE LET vt == VT(T, i3, <<>>)  ps3 == [ps EXCEPT !.i = vt.i] IN
                       IF ty = <<65>> THEN AscLoop(vt.toks, 1, ps3, <<>>, b)
                       ELSE ArrLoop(ty, vt.toks, 1, ps3, <<>>)
         IN IF r.pan THEN Failr(Warn(Err(r.ps, lab), lab))       \* a factory refusal inside one item: error + warning at '<'
            ELSE IF ~r.ok THEN Failr(r.ps)
            ELSE LET sz == SizeOfV(r.v)
                     ps4 == IF hasSz /\ sz >= 0 /\ SizeBad(sz, b) THEN Err(r.ps, t2) ELSE r.ps
                     tr == Tk(T, ps4.i)
                 IN IF tr.typ = "RAB" THEN OKr([ps4 EXCEPT !.i = @ + 1], r.v) ELSE Failr(Err(ps4, tr))

DirStr(cs) == IF cs = <<72, 45, 62, 69>> THEN "H->E" ELSE IF cs = <<72, 60, 45, 69>> THEN "H<-E" ELSE "H<->E"
ParseMessage(T, ps0) ==
  LET ps1 == [ps0 EXCEPT !.vars = {}, !.ell = 0]                 \* names and ellipsis numbering are scoped to one message
      t == Tk(T, ps1.i) IN
  IF t.typ # "StreamFunction" THEN Failr(Err(ps1, t))
  ELSE LET cs == UpperSeq(t.s, t.e)
           fi == CHOOSE i \in 1..Len(cs) : cs[i] = 70
           sv == DecCap(SubSeq(cs, 2, fi - 1))
           fv == DecCap(SubSeq(cs, fi + 1, Len(cs)))
           psA == IF sv >= 128 THEN Err(ps1, t) ELSE ps1
           psB == IF fv >= 256 THEN Err(psA, t) ELSE psA
           stream == IF sv >= 128 THEN 0 ELSE sv
           func == IF fv >= 256 THEN 0 ELSE fv
           i1 == ps1.i + 1
           tw == Tk(T, i1)
           hasW == tw.typ = "WaitBit"
           isW == hasW /\ tw.e - tw.s = 1
           wb == IF ~hasW THEN "false" ELSE IF isW THEN (IF func % 2 = 0 THEN "false" ELSE "true") ELSE "optional"
           psC == IF isW /\ func % 2 = 0 THEN Err(psB, tw) ELSE psB
           i2 == IF hasW THEN i1 + 1 ELSE i1
           td == Tk(T, i2)
           hasD == td.typ = "Direction"
           psD == IF hasD THEN psC ELSE Warn(psC, td)
           dir == IF hasD THEN DirStr(UpperSeq(td.s, td.e)) ELSE "H<->E"
           i3 == IF hasD THEN i2 + 1 ELSE i2
           tn == Tk(T, i3)
           hasN == tn.typ = "MessageName"
           name == IF hasN THEN RawVal(tn) ELSE <<>>
           i4 == IF hasN THEN i3 + 1 ELSE i3
           tt == Tk(T, i4)
           Done(ps, item) == IF \E j \in 1..Len(name) : IsSpace(name[j]) THEN Panr(ps)    \* the message factory refuses: nothing recovers it
                             ELSE OKr(ps, [name |-> name, s |-> stream, f |-> func, w |-> wb, dir |-> dir, item |-> item])
       IN IF tt.typ = "MessageEnd" THEN Done([psD EXCEPT !.i = i4 + 1], [f |-> "none"])
          ELSE IF tt.typ = "LAB" THEN
               LET r == ParseItem(T, [psD EXCEPT !.i = i4]) IN
               IF ~r.ok THEN Failr(r.ps)
               ELSE LET te == Tk(T, r.ps.i) IN
                    IF te.typ = "MessageEnd" THEN Done([r.ps EXCEPT !.i = @ + 1], r.v) ELSE Failr(Err(r.ps, te))
          ELSE Failr(Err(psD, tt))

RECURSIVE Loop(_, _, _)
Loop(T, ps, acc) == IF Tk(T, ps.i).typ = "EOF" THEN [pan |-> FALSE, ps |-> ps, msgs |-> acc]
                    ELSE LET r == ParseMessage(T, ps) IN
                         IF r.ok THEN Loop(T, r.ps, Append(acc, r.v)) ELSE [pan |-> r.pan, ps |-> r.ps, msgs |-> acc]
\* sml.Parse: outcome, messages (none if any error), error and warning positions as <<line, column>>
ParseText ==
  LET T == SelectSeq(Run.out, LAMBDA t : t.typ # "Comment")
      r == Loop(T, [i |-> 1, vars |-> {}, ell |-> 0, errs |-> <<>>, warns |-> <<>>], <<>>)
  IN IF r.pan THEN [outcome |-> "panic", msgs |-> <<>>, errs |-> <<>>, warns |-> <<>>]
     ELSE [outcome |-> "returned",
           msgs |-> IF r.ps.errs # <<>> THEN <<>> ELSE r.msgs,
           errs |-> [i \in 1..Len(r.ps.errs) |-> LC(r.ps.errs[i])],
           warns |-> [i \in 1..Len(r.ps.warns) |-> LC(r.ps.warns[i])]]
=====================================================================
