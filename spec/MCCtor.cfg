SPECIFICATION CtorSpec
INVARIANTS NoWrap Nested FloatDomain
CHECK_DEADLOCK FALSE
