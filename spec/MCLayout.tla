---------------------------- MODULE MCLayout ----------------------------
(* C08 / C19 at model level: two layouts of one token list lex to the same  *)
(* tokens at corresponding places, so the parser - a function of the        *)
(* comment-stripped token stream - returns the same messages, with          *)
(* diagnostics at the mapped positions; and the parse of a concatenation is *)
(* the concatenation of the parses.                                         *)
(* Scope: all lists of up to K words from a 20-word vocabulary (header and  *)
(* text lexemes in both letter cases), every assignment of a separator per  *)
(* gap from {blank, line break, tab + CRLF, three comments ending in a      *)
(* blank, in a 2-byte letter ending in byte 0xA9, in U+2003}.               *)
EXTENDS Integers, Sequences, FiniteSets, TLC
CONSTANTS K, AsIsD10, AsIsD12
VARIABLES toks, seps, phase
vars == <<toks, seps, phase>>
Lx(t) == INSTANCE SmlLexer WITH input <- t
P(t) == INSTANCE SmlParser WITH input <- t, floats <- <<>>
Vocab == { <<83,49,70,49>>, <<115,50,102,50>>, <<87>>, <<91,119,93>>, <<72,45,62,69>>, <<110,97,109,101>>, <<60>>, <<62>>, <<46>>,
           <<76>>, <<97>>, <<85,49>>, <<53>>, <<48,120,49,70>>, <<34,115,34>>, <<118>>, <<46,46,46>>, <<91,50,93>>, <<116>>, <<65>> }
Plain == <<32>>
Seps == { <<32>>, <<10>>, <<9, 13, 10>>, <<32, 47, 47, 32, 99, 32, 10>>, <<32, 47, 47, 1202169, 13, 10>>, <<32, 47, 47, 1301131, 10>> }
RECURSIVE Rend(_, _, _, _)
Rend(ts, ss, i, acc) == IF i > Len(ts) THEN acc
                        ELSE Rend(ts, ss, i + 1, [text |-> acc.text \o ss[i] \o ts[i], offs |-> Append(acc.offs, Len(acc.text) + Len(ss[i]))])
Render(ts, ss) == LET r == Rend(ts, ss, 1, [text |-> <<>>, offs |-> <<>>]) IN [text |-> r.text \o ss[Len(ts) + 1], offs |-> r.offs]
\* where a lexed token starts, as (source word index, offset inside it); comments dropped
Place(offs, s) == LET I == {i \in 1..Len(offs) : offs[i] <= s} IN
                  IF I = {} THEN <<0, s>> ELSE LET i == CHOOSE x \in I : \A y \in I : y <= x IN <<i, s - offs[i]>>
Shape(r) == LET out == SelectSeq(Lx(r.text)!Run.out, LAMBDA t : t.typ # "Comment") IN
            [i \in 1..Len(out) |-> [typ |-> out[i].typ, val |-> Lx(r.text)!Val(out[i]),
                                    at |-> IF out[i].typ = "EOF" THEN <<-1, 0>> ELSE Place(r.offs, out[i].s)]]
\* the parser's result with positions expressed as places
Parsed(r) == LET pr == P(r.text)!ParseText IN [outcome |-> pr.outcome, msgs |-> pr.msgs, nerr |-> Len(pr.errs), nwarn |-> Len(pr.warns)]
PlainSeps(ts) == [i \in 1..(Len(ts) + 1) |-> Plain]
Init == /\ \E k \in 1..K : toks \in [1..k -> Vocab]
        /\ seps = PlainSeps(toks) /\ phase = "plain"
Next == /\ phase = "plain" /\ phase' = "layout"
        /\ seps' \in [1..(Len(toks) + 1) -> Seps]
        /\ UNCHANGED toks
Spec == Init /\ [][Next]_vars
\* C08: any layout has the token shape and the parse of the plain rendering
LayoutInvariant == phase = "layout" =>
    LET a == Render(toks, PlainSeps(toks))  b == Render(toks, seps) IN
    /\ Shape(b) = Shape(a)
    /\ Parsed(b) = Parsed(a)
\* C06: all or nothing, never a panic
AllOrNothing == LET pr == P(Render(toks, seps).text)!ParseText IN
    pr.outcome = "returned" /\ (pr.errs # <<>> => pr.msgs = <<>>)
\* C19: if the text splits after a message terminator into two accepted texts, the whole parses to the concatenation
Splits == phase = "layout" =>
    \A k \in 1..(Len(toks) - 1) : toks[k] = <<46>> =>
       LET whole == Render(toks, seps)
           left == Render(SubSeq(toks, 1, k), SubSeq(seps, 1, k) \o <<Plain>>)
           right == Render(SubSeq(toks, k + 1, Len(toks)), SubSeq(seps, k + 1, Len(seps)))
           pl == P(left.text)!ParseText  pr == P(right.text)!ParseText  pw == P(whole.text)!ParseText IN
       (pl.errs = <<>> /\ pr.errs = <<>> /\ Len(pl.msgs) > 0) => (pw.errs = <<>> /\ pw.msgs = pl.msgs \o pr.msgs)
=====================================================================
