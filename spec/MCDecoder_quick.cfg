SPECIFICATION MCSpec
CONSTANTS
  N = 4
  NH = 1
  AsIsD1 = FALSE
  AsIsD2 = FALSE
  AsIsD3 = FALSE
  AsIsD4 = FALSE
INVARIANTS AgreesWithGrammar InBounds Linear LengthsReadExactly OperatorFormAgrees ReencodeIsNormal EmitAccepted
PROPERTIES MCProgress Terminates
CHECK_DEADLOCK FALSE
