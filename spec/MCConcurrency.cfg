SPECIFICATION Spec
CONSTANTS
  Workers <- MC_Workers
  CallsPerWorker = 1
VIEW View
INVARIANTS NoConflict Emit
CHECK_DEADLOCK FALSE
