SPECIFICATION TSpec
CONSTANTS
  ChunkSize = 16
  Workers = {"w1", "w2", "w3"}
  CallsPerWorker = 1
INVARIANTS @INVS@
CHECK_DEADLOCK FALSE
