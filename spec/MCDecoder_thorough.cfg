SPECIFICATION MCSpec
CONSTANTS
  N = 5
  NH = 2
  AsIsD1 = FALSE
  AsIsD2 = FALSE
  AsIsD3 = FALSE
  AsIsD4 = FALSE
INVARIANTS AgreesWithGrammar InBounds Linear LengthsReadExactly OperatorFormAgrees ReencodeIsNormal EmitAccepted
PROPERTIES MCProgress
CHECK_DEADLOCK FALSE
