---------------------------- MODULE Num ----------------------------
(* Unbounded naturals for TLC, whose integers are 32-bit.                   *)
(* A natural is a little-endian sequence of base-256 digits without         *)
(* trailing zeros (<<>> is 0).  A signed value is [neg, mag].               *)
(* Integers cross the Go/TLC boundary as [neg |-> BOOLEAN, dec |-> decimal  *)
(* digits, most significant first].                                         *)
EXTENDS Integers, Sequences

RECURSIVE MulAdd(_, _, _)
\* x * m + c   (m, c small)
MulAdd(x, m, c) ==
  IF x = <<>> THEN (IF c = 0 THEN <<>> ELSE <<c % 256>> \o MulAdd(<<>>, m, c \div 256))
  ELSE LET v == x[1] * m + c IN <<v % 256>> \o MulAdd(Tail(x), m, v \div 256)

RECURSIVE TrimZ(_)
TrimZ(x) == IF x # <<>> /\ x[Len(x)] = 0 THEN TrimZ(SubSeq(x, 1, Len(x) - 1)) ELSE x

RECURSIVE FromDigits(_, _, _)
\* digits ds (most significant first) in base `base`, accumulated onto acc
FromDigits(base, ds, acc) ==
  IF ds = <<>> THEN TrimZ(acc) ELSE FromDigits(base, Tail(ds), MulAdd(acc, base, Head(ds)))
FromDec(ds) == FromDigits(10, ds, <<>>)

RECURSIVE CmpHi(_, _)
CmpHi(a, b) == IF a = <<>> THEN 0
               ELSE IF a[Len(a)] # b[Len(b)] THEN (IF a[Len(a)] < b[Len(b)] THEN -1 ELSE 1)
               ELSE CmpHi(SubSeq(a, 1, Len(a) - 1), SubSeq(b, 1, Len(b) - 1))
\* -1, 0, 1 for a < b, a = b, a > b (both trimmed)
Cmp(a, b) == IF Len(a) # Len(b) THEN (IF Len(a) < Len(b) THEN -1 ELSE 1) ELSE CmpHi(a, b)

Pow2(bits)   == [i \in 1..(bits \div 8 + 1) |-> IF i = bits \div 8 + 1 THEN 1 ELSE 0]   \* 2^bits
Half(bits)   == [i \in 1..(bits \div 8) |-> IF i = bits \div 8 THEN 128 ELSE 0]         \* 2^(bits-1)
MaxU(bits)   == [i \in 1..(bits \div 8) |-> 255]                                        \* 2^bits - 1
HalfM1(bits) == [i \in 1..(bits \div 8) |-> IF i = bits \div 8 THEN 127 ELSE 255]       \* 2^(bits-1) - 1

\* value is representable as an unsigned / signed integer of `bits` bits
InUnsigned(v, bits) == (~v.neg \/ v.mag = <<>>) /\ Cmp(v.mag, Pow2(bits)) < 0
InSigned(v, bits)   == IF v.neg THEN Cmp(v.mag, Half(bits)) <= 0 ELSE Cmp(v.mag, Half(bits)) < 0

\* small TLC integer (>= 0) to Num
RECURSIVE OfSmall(_)
OfSmall(n) == IF n = 0 THEN <<>> ELSE <<n % 256>> \o OfSmall(n \div 256)

\* ---- decimal printing ----
DivSmall(x, d) ==
  LET RECURSIVE Go(_, _, _)
      Go(i, rem, acc) == IF i = 0 THEN [q |-> TrimZ(acc), r |-> rem]
                         ELSE LET cur == rem * 256 + x[i] IN Go(i - 1, cur % d, [acc EXCEPT ![i] = cur \div d])
  IN Go(Len(x), 0, x)
RECURSIVE ToDec(_)
ToDec(x) == IF x = <<>> THEN <<>> ELSE LET r == DivSmall(x, 10) IN Append(ToDec(r.q), 48 + r.r)
\* decimal text (character codes) of a natural
DecStr(x) == IF x = <<>> THEN <<48>> ELSE ToDec(x)
RECURSIVE DecChars(_)
\* decimal text of a small TLC integer >= 0
DecChars(k) == IF k < 10 THEN <<48 + k>> ELSE Append(DecChars(k \div 10), 48 + (k % 10))

\* ---- two's complement, big-endian, w bytes ----
PadLE(x, w) == [i \in 1..w |-> IF i <= Len(x) THEN x[i] ELSE 0]
RECURSIVE NegLE(_, _, _)
NegLE(x, i, carry) == IF i > Len(x) THEN <<>>
                      ELSE LET v == (255 - x[i]) + carry IN <<v % 256>> \o NegLE(x, i + 1, v \div 256)
BEofLE(x) == [i \in 1..Len(x) |-> x[Len(x) + 1 - i]]
\* v = [neg, mag] assumed representable in w bytes
IntBytes(v, w) == LET m == PadLE(v.mag, w) IN BEofLE(IF v.neg /\ v.mag # <<>> THEN NegLE(m, 1, 1) ELSE m)
\* inverse: big-endian bytes to signed / unsigned value
OfBE(bs) == TrimZ(BEofLE(bs))
UnsignedOfBytes(bs) == [neg |-> FALSE, mag |-> OfBE(bs)]
SignedOfBytes(bs) == IF bs[1] < 128 THEN [neg |-> FALSE, mag |-> OfBE(bs)]
                     ELSE [neg |-> TRUE, mag |-> TrimZ(NegLE(BEofLE(bs), 1, 1))]
\* the boundary form [neg, dec] -> [neg, mag]   (-0 is normalised to 0)
OfJson(x) == LET m == FromDec(x.dec) IN [neg |-> x.neg /\ m # <<>>, mag |-> m]
=====================================================================
