---------------------------- MODULE TraceCodec ----------------------------
(* Trace validation of the HSMS codec: events recorded from the real         *)
(* library (harness drivers rt, corrupt, hsms-enum) are checked against     *)
(* Secs2 (the wire format and the strict grammar) and HsmsDecoder (the      *)
(* code-shaped machine).                                                    *)
(*                                                                          *)
(* Non-blocking trace specification: every line is consumed; what a line    *)
(* must satisfy is an invariant, so a rejection is a TLC counterexample     *)
(* whose last state names the line.  Lines are independent, so the trace    *)
(* is cut into chunks that TLC's workers check in parallel.                 *)
(*   Prop*  : exactly what a property states about the observed behaviour   *)
(*            (a failure is a VIOLATION)                                    *)
(*   Agree* : the observation equals what the code-shaped model predicts    *)
(*            (a failure alone is model DRIFT, not a violation)             *)
EXTENDS HsmsDecoder, Json, ControlMsg
CONSTANT ChunkSize
Trace == ndJsonDeserialize("trace.ndjson")
VARIABLE l
tvars == <<l, input, m>>
E == Trace[l]

TInit == l = 0 /\ input = <<>> /\ m = M0
TNext == /\ UNCHANGED <<input, m>>
         /\ \/ l = 0 /\ l' \in {-k : k \in {j \in 1..Len(Trace) : j % ChunkSize = 1 \/ ChunkSize = 1}}   \* enter a chunk (no check yet,
            \/ l < 0 /\ l' = -l                                  \* so that chunk heads are checked by different workers)
            \/ l > 0 /\ l < Len(Trace) /\ l % ChunkSize # 0 /\ l' = l + 1
TSpec == TInit /\ [][TNext]_tvars

\* ------------------------------------------------------------------ reading the projection
RECURSIVE HasVars(_)
HasVars(x) == IF x.f = "none" THEN FALSE
              ELSE IF x.f = "L" THEN \E i \in 1..Len(x.e) : ("var" \in DOMAIN x.e[i] \/ "ell" \in DOMAIN x.e[i]
                                                              \/ ("f" \in DOMAIN x.e[i] /\ HasVars(x.e[i])))
              ELSE IF x.f = "A" THEN "var" \in DOMAIN x
              ELSE \E i \in 1..Len(x.e) : "var" \in DOMAIN x.e[i]
Complete(msg) == msg.w # "optional" /\ ~HasVars(msg.item) /\ msg.sid # -1
RecOfData(msg) == MsgOf(msg, ByteLevel(msg.item))
RecOf(msg) == IF msg.kind = "ctrl" THEN [kind |-> "ctrl", hdr |-> msg.hdr] ELSE RecOfData(msg)
ExpectedBytes(msg) == IF Complete(msg) THEN EncMsg(RecOfData(msg)) ELSE <<>>

\* re-encodings equal to the input are recorded as a flag (same2 / psame2) instead of a second copy
Bytes2(e) == IF e.same2 THEN e.bytes ELSE e.bytes2
PBytes2(e) == IF e.psame2 THEN e.bytes ELSE e.pbytes2

\* ------------------------------------------------------------------ C01: encode -> decode round trip
PropC01(e) == e.ev = "rt" =>
   /\ ~e.panic /\ e.ok /\ e.pok
   /\ e.msg2.kind = "data"
   /\ e.msg2.s = e.msg.s /\ e.msg2.f = e.msg.f /\ e.msg2.w = e.msg.w
   /\ e.msg2.sid = e.msg.sid /\ e.msg2.sys = e.msg.sys
   /\ ByteLevel(e.msg2.item) = ByteLevel(e.msg.item)           \* identical item tree: the same encoding of values that
   /\ ValuesOK(e.msg.item) /\ ValuesOK(e.msg2.item)            \*   both lie in their format's domain (where the encoding is one-to-one)
   /\ e.same2 /\ e.psame2                                     \* encoding again gives the same bytes
   /\ ("rok" \in DOMAIN e) => (e.rok /\ e.rsame)             \* ... also when the frame arrived in a receive buffer that is used again and again

\* ------------------------------------------------------------------ C02: the bytes are the E5 / E37 encoding
PropC02(e) ==
   /\ e.ev \in {"rt", "enc"} =>
        /\ HasVars(e.msg.item) \/ ValuesOK(e.msg.item)
        /\ e.bytes = ExpectedBytes(e.msg)
        /\ ("keptsame" \in DOMAIN e) => e.keptsame      \* ... and stay that while other items and messages are encoded
   \* a message that came out of the decoder - whatever spelling its input had - encodes like any other
   /\ (e.ev = "dec" /\ e.ok /\ e.msg2.kind = "data") => (Bytes2(e) = ExpectedBytes(e.msg2) /\ PBytes2(e) = Bytes2(e))

\* TLC -> Go replay: the case was built from the specification's message `want`; the real object must be
\* that message and its bytes must be the bytes the specification computed for it
PropExpect(e) == "want" \in DOMAIN e => RecOfData(e.msg) = e.want /\ e.bytes = e.expect

\* C02, every value: interval summaries of the factories + encoders over all values of the narrow formats.
\* On an interval the code accepted every value, wrote the header `hdr`, and the payload read as an unsigned
\* big-endian number was value + d; TLC checks that against its own definitions for every value of the interval.
NumOfInt(v) == [neg |-> v < 0, mag |-> OfSmall(IF v < 0 THEN -v ELSE v)]
RECURSIVE BEVal(_, _)
BEVal(bs, acc) == IF bs = <<>> THEN acc ELSE BEVal(Tail(bs), acc * 256 + Head(bs))
ValInDomain(f, v) == CASE f = "B" -> v \in 0..255 [] f = "A" -> v \in 0..127
                       [] f \in {"I1", "I2"} -> InSigned(NumOfInt(v), 8 * Width(CodeOf(f)))
                       [] OTHER -> InUnsigned(NumOfInt(v), 8 * Width(CodeOf(f)))
ValPayload(f, v) == IF f \in {"B", "A"} THEN <<v>> ELSE IntBytes(NumOfInt(v), Width(CodeOf(f)))
PropVal(e) ==
  /\ e.ev = "valivl" =>
       (\A v \in e.a..e.b :
           /\ e.accepted = ValInDomain(e.f, v)
           /\ (~e.accepted \/ (e.hdr = ItemHeader(CodeOf(e.f), 1) /\ BEVal(ValPayload(e.f, v), 0) = v + e.d)))
  \* every F4 bit pattern (as two 16-bit halves): accepted iff finite, payload = the pattern; finiteness depends on the high half only
  /\ e.ev = "f4ivl" =>
       (/\ e.same
        /\ (e.first => (e.ahi = 0 /\ e.alo = 0)) /\ (e.last => (e.bhi = 65535 /\ e.blo = 65535))
        /\ (e.alo = 0 /\ e.blo = 65535)                                  \* the class changes only between high halves
        /\ \A hi \in e.ahi..e.bhi : e.accepted = FiniteF4(<<hi \div 256, hi % 256, 0, 0>>))

\* ------------------------------------------------------------------ C03: accepted iff well-formed, decoded exactly
PropC03(e) == e.ev \in {"rt", "dec"} =>
   LET r == DecMsg(e.bytes) IN
   /\ ~e.panic
   /\ e.ok = r.ok /\ e.pok = r.ok       \* the same verdict whatever lies behind the input in its buffer
   /\ ("rok" \in DOMAIN e) => (e.rok = r.ok /\ (r.ok => (e.rsame <=> e.bytes = EncMsg(r.msg))))   \* ... or was in the buffer before
   /\ r.ok => /\ RecOf(e.msg2) = r.msg
              /\ Bytes2(e) = EncMsg(r.msg) /\ PBytes2(e) = EncMsg(r.msg)

\* ------------------------------------------------------------------ C13: each length field is read back exactly
LenAt(bytes, pos, nl) == IF nl = 1 THEN bytes[pos] ELSE IF nl = 2 THEN bytes[pos - 1] * 256 + bytes[pos]
                         ELSE bytes[pos - 2] * 65536 + bytes[pos - 1] * 256 + bytes[pos]
PropC13(e) == e.ev \in {"rt", "dec"} =>
   \A i \in 1..Len(e.hdrs) : LET h == e.hdrs[i] IN
       h.nl \in 1..3 /\ h.pos <= Len(e.bytes) /\ h.len = LenAt(e.bytes, h.pos, h.nl)

\* C13, every size: the unexported header routine swept by the harness (points with the full header bytes,
\* and maximal intervals on which its class - error / format byte / number of length bytes - is constant)
HClass(c, n) == IF ~Constructible(c, n) THEN [err |-> TRUE, fb |-> 0, nl |-> 0]
                ELSE LET k == Len(LenBytes(n * Width(c))) IN [err |-> FALSE, fb |-> c * 4 + k, nl |-> k]
MaxCount(c) == MaxBytes \div Width(c)
PropHdr(e) ==
  /\ e.ev = "hdrpoint" => LET c == CodeOf(e.f) IN
        /\ e.err = ~Constructible(c, e.n)
        /\ ~e.err => e.hdr = ItemHeader(c, e.n)
  /\ e.ev = "hdrivl" => LET c == CodeOf(e.f)  cls == [err |-> e.err, fb |-> e.fb, nl |-> e.nl] IN
        /\ e.exact                                        \* declared length = n * width everywhere on the interval
        /\ e.prevb < e.a /\ (e.prevb = -1 <=> e.a = 0)
        /\ HClass(c, e.a) = cls /\ HClass(c, e.b) = cls
        /\ e.a > 0 => HClass(c, e.a - 1) # cls             \* the class changes exactly where the format says
        /\ e.dense => (e.a = e.prevb + 1 /\ \A n \in e.a..e.b : HClass(c, n) = cls)
        /\ e.final => (e.err /\ e.b = MaxCount(c) + 16)

\* C13, real items at the boundaries, as run-length summaries
RECURSIVE Merge(_)
Merge(rs) == IF Len(rs) < 2 THEN rs
             ELSE IF rs[1].v = rs[2].v THEN Merge(<<[v |-> rs[1].v, n |-> rs[1].n + rs[2].n]>> \o SubSeq(rs, 3, Len(rs)))
             ELSE <<rs[1]>> \o Merge(Tail(rs))
Runs3(n, a, b, c) == Merge(IF n = 0 THEN <<>> ELSE IF n = 1 THEN <<[v |-> a, n |-> 1]>>
                           ELSE IF n = 2 THEN <<[v |-> a, n |-> 1], [v |-> c, n |-> 1]>>
                           ELSE <<[v |-> a, n |-> 1], [v |-> b, n |-> n - 2], [v |-> c, n |-> 1]>>)
ChunkOf(f, x) == IF f = "L" THEN EncItem(ByteLevel(x)) ELSE IF f = "A" THEN <<x>> ELSE ElemBytes(CodeOf(f), x)
PropBig(e) == e.ev = "big" =>
  LET c == CodeOf(e.f)  w == Width(c) IN
  /\ e.built = Constructible(c, e.n)                       \* constructible iff count * width <= 16,777,215
  /\ e.built =>
      /\ e.size = e.n
      /\ e.hdr = ItemHeader(c, e.n)
      /\ e.enclen = Len(e.hdr) + e.n * (IF c = 0 THEN 3 ELSE w)
      /\ e.runs = Runs3(e.n, ChunkOf(e.f, e.first), ChunkOf(e.f, e.mid), ChunkOf(e.f, e.last))
      \* the complete message around the item: 4 length bytes, 10 header bytes, the item (C02: never empty, never partial)
      /\ e.msglen >= 0 => (e.msglen = 14 + e.enclen /\ SubSeq(e.msghead, 1, 4) = BE4(10 + e.enclen)
                           /\ SubSeq(e.msghead, 5, 14) = <<0, 7, 1, 1, 0, 0, 1, 2, 3, 4>>)
      /\ e.dec.done =>
           /\ e.dec.ok /\ e.dec.same
           /\ e.dec.nh = (IF c = 0 THEN e.n + 1 ELSE 1)
           /\ e.dec.hdrs[1] = [pos |-> 14 + Len(e.hdr), code |-> c, nl |-> Len(e.hdr) - 1, len |-> e.n * w]
           /\ e.dec.hasv => (e.dec.vf = e.f /\ e.dec.vruns = Runs3(e.n, e.first, e.mid, e.last))

\* ------------------------------------------------------------------ C07: total, memory linear in the input
PropC07(e) == e.ev = "alloc" =>
   /\ e.outcome = "returned"                       \* no panic escapes, no process abort
   /\ e.alloc_kb <= AllocBoundKB(e.len)

\* ------------------------------------------------------------------ C14: control messages
CtorKeys == {"selectreq", "selectrsp", "deselectreq", "deselectrsp", "linktestreq", "linktestrsp", "separatereq", "rejectreq"}
KindOfKey(k) == CASE k = "selectreq" -> "select.req" [] k = "selectrsp" -> "select.rsp" [] k = "deselectreq" -> "deselect.req"
                  [] k = "deselectrsp" -> "deselect.rsp" [] k = "linktestreq" -> "linktest.req" [] k = "linktestrsp" -> "linktest.rsp"
                  [] k = "separatereq" -> "separate.req" [] k = "rejectreq" -> "reject.req"
\* a control message of SType 0 cannot be built through the API; what its Type() says is left free
TypeMatches(t, ptype, stype) == t = TypeOf(ptype, stype) \/ (ptype = 0 /\ stype = 0 /\ t = "undefined")
CtorBytes(kind, sid, sys, code) ==
   CASE kind = "select.req" -> SelectReq(sid, sys) [] kind = "select.rsp" -> SelectRsp(SelectReq(sid, sys), code)
     [] kind = "deselect.req" -> DeselectReq(sid, sys) [] kind = "deselect.rsp" -> DeselectRsp(DeselectReq(sid, sys), code)
     [] kind = "linktest.req" -> LinktestReq(sys) [] kind = "linktest.rsp" -> LinktestRsp(LinktestReq(sys))
     [] kind = "separate.req" -> SeparateReq(sid, sys) [] kind = "reject.req" -> RejectReq(sid, 0, 9, sys, code)
\* TLC -> Go: every constructor call of the case table gives the bytes and the type the specification demands
C14Case(e) == e.ev = "ctrlcase" => (\A k \in CtorKeys : e.real[k].bytes = e.want[k] /\ e.real[k].type = KindOfKey(k))
\* Type() over all (PType, SType) pairs
C14Type(e) == e.ev = "typeivl" => (\A key \in e.a..e.b : TypeMatches(e.type, key \div 256, key % 256))
\* every session id: the two session-id bytes follow the argument, nothing else depends on it
C14Sid(e) == e.ev = "sidivl" =>
   (e.sidok /\ e.a = 0 /\ e.b = 65535
    /\ e.rest = Wire(CtorBytes(e.kind, IF e.kind \in {"linktest.req", "linktest.rsp"} THEN 65535 ELSE 0, e.sys, e.code)))
\* every status / reason code: the code byte follows the argument, the other bytes are the specification's for every
\* code of the interval, and the message decodes from its bytes to an equal one of its kind
C14Code(e) == e.ev = "codeivl" =>
   (e.codeok /\ e.decok /\ e.prevb + 1 = e.a /\ e.a <= e.b /\ e.b <= 255
    /\ \A code \in e.a..e.b : [e.rest EXCEPT ![8] = code] = Wire(CtorBytes(e.kind, e.sid, e.sys, code)))
\* responses answer only their own kind of request, and echo it
RspBytes(rsp, rq, status) == Wire(CASE rsp = "select.rsp" -> SelectRsp(rq, status)
                                    [] rsp = "deselect.rsp" -> DeselectRsp(rq, status)
                                    [] rsp = "linktest.rsp" -> LinktestRsp(rq))
C14Pairing(e) == e.ev = "pairing" =>
   (e.refused = (e.reqtype # RequestKindFor(e.rsp))
    /\ (e.refused \/ (e.type = e.rsp /\ e.bytes = RspBytes(e.rsp, SubSeq(e.req, 5, 14), e.status))))
\* any header: bytes, type, decode (equal message iff the SType is defined), no aliasing
C14Raw(e) == e.ev = "ctrlraw" =>
   (e.bytes = Wire(e.hdr) /\ e.again = e.bytes
    /\ TypeMatches(e.type, e.hdr[5], e.hdr[6])
    /\ e.ok = DecMsg(e.bytes).ok /\ e.pok = e.ok            \* (SType 0 with PType 0 is a header-only data message)
    /\ (TypeOf(e.hdr[5], e.hdr[6]) \notin Kinds
        \/ (e.ok /\ e.msg2.kind = "ctrl" /\ e.msg2.hdr = e.hdr /\ e.type2 = e.type /\ e.same2)))
\* behaviours of HsmsSession replayed with the library: what is sent is the header the protocol model names, what
\* arrives decodes and classifies as the model's receive branch assumes, replies are built from the decoded request
SessHdr(r) == <<r.sid \div 256, r.sid % 256, r.b2, r.b3, r.ptype, r.stype, 0, r.sys[1], 0, r.sys[2]>>
C14Session(e) == e.ev = "sess" =>
   (IF e.act = "Send" THEN e.built /\ e.bytes = Wire(SessHdr(e.rec))
    ELSE /\ ~e.desync /\ e.bytes = Wire(SessHdr(e.rec))
         /\ e.ok = (TypeOf(e.rec.ptype, e.rec.stype) # "undefined")
         /\ (~e.ok \/ e.type = TypeOf(e.rec.ptype, e.rec.stype))
         /\ (e.reply.m.sid = -1 \/ (e.rbuilt /\ e.rbytes = Wire(SessHdr(e.reply.m)))))
\* behaviours of HsmsApp replayed with the library in the role of an application (driver app): every data message is a
\* round-trip event with the model's message and bytes (PropExpect); control messages, and what the receiver sees:
\* the frame the model sent, accepted, decoded to the model's message, classified by Type()
AppCtl(e) == e.ev = "appctl" => (e.built /\ e.bytes = e.expect /\ e.type = TypeOf(e.expect[9], e.expect[10]))
AppRecv(e) == e.ev = "apprecv" =>
   LET r == DecMsg(e.expect) IN
   /\ ~e.desync /\ e.bytes = e.expect
   /\ r.ok /\ e.ok /\ RecOf(e.msg2) = r.msg
   /\ e.type = (IF r.msg.kind = "ctrl" THEN TypeOf(r.msg.hdr[5], r.msg.hdr[6]) ELSE "data message")
\* the byte stream of one direction falls apart into exactly the frames that were sent, by their length fields alone
AppStream(e) == e.ev = "appstream" => (e.cut = e.frames /\ e.rest = 0 /\ e.same /\ e.allok)
AppBuilt(e) == e.ev # "appfail"                 \* the library made every message the protocol asked for
PropApp(e) == AppRecv(e) /\ AppBuilt(e) /\ AppStream(e)
\* a request constructor given more than four system bytes refuses, or yields a 14-byte message like any other (its
\* system bytes four consecutive ones of those given) that decodes to an equal message
C14Over(e) == e.ev = "sysover" =>
   (e.refused \/ LET want == Wire(CtorBytes(e.kind, IF e.kind = "linktest.req" THEN 65535 ELSE e.sid, <<0, 0, 0, 0>>, e.code)) IN
                 /\ Len(e.bytes) = 14 /\ SubSeq(e.bytes, 1, 10) = SubSeq(want, 1, 10)
                 /\ \E k \in 0..(Len(e.sys) - 4) : SubSeq(e.bytes, 11, 14) = SubSeq(e.sys, k + 1, k + 4)
                 /\ e.type = e.kind /\ e.ok /\ e.same)
PropC14(e) == C14Case(e) /\ C14Type(e) /\ C14Sid(e) /\ C14Code(e) /\ C14Pairing(e) /\ C14Raw(e) /\ C14Session(e) /\ C14Over(e) /\ AppCtl(e)

\* ------------------------------------------------------------------ model agreement (drift only)
AgreeDecoder(e) == e.ev \in {"rt", "dec"} =>
   LET r == Run(e.bytes) IN
   /\ e.ok = (r.st = "accept")
   /\ e.hdrs = r.log

\* C13, several items of different length-byte classes in one message: each header the encoder wrote is the
\* specification's, and the decoder read exactly that length for it, whatever came before
RECURSIVE SumLen(_, _)
SumLen(kids, i) == IF i > Len(kids) THEN 0
                   ELSE LET c == CodeOf(kids[i].f) IN Len(ItemHeader(c, kids[i].n)) + kids[i].n * Width(c) + SumLen(kids, i + 1)
PropSeq(e) == e.ev = "bigseq" =>
   /\ e.ok /\ e.same
   /\ Len(e.hdrs) = Len(e.kids) + 1 + e.wrap
   /\ \A i \in 1..e.wrap : e.hdrs[i].raw = <<1, 1>> /\ e.hdrs[i].len = 1      \* the enclosing one-element lists
   /\ e.hdrs[e.wrap + 1].raw = ItemHeader(0, Len(e.kids)) /\ e.hdrs[e.wrap + 1].len = Len(e.kids)
   /\ e.msglen = 14 + 2 * e.wrap + Len(ItemHeader(0, Len(e.kids))) + SumLen(e.kids, 1)     \* nothing dropped, nothing added
   /\ \A i \in 1..Len(e.kids) : LET k == e.kids[i]  c == CodeOf(k.f)  h == e.hdrs[e.wrap + i + 1] IN
          /\ h.raw = ItemHeader(c, k.n)
          /\ h.nl = Len(h.raw) - 1
          /\ h.code = c
          /\ h.len = k.n * Width(c)
\* very many small items in one list and one more list behind them: accepted, re-encoded to the same bytes, every header seen
PropFlat(e) == e.ev = "bigflat" =>
   LET per == IF e.kind = "L1B0" THEN 4 ELSE 2   hp == IF e.kind = "L1B0" THEN 2 ELSE 1 IN
   /\ e.ok /\ e.same
   \* <L[3] <B[0]> <L[2] <A "s"> <L[n] ...>> <L[1] <U1 7>>>
   /\ e.msglen = 14 + 2 + 2 + 2 + 3 + Len(ItemHeader(0, e.n)) + e.n * per + 5
   /\ e.nh = 5 + e.n * hp + 2
\* the size limit reached through a fill: an ASCII variable (whatever bounds it declares) takes a string iff it is inside
\* the bounds and inside the limit; a list grown by an ellipsis exists iff its element count is inside the limit
PropRoute(e) == e.ev = "bigroute" =>
   LET wrap == IF e.via = "item" THEN 0 ELSE IF e.via = "list" THEN 2 ELSE 14 IN
   IF e.route = "asciifill"
   THEN LET fits == e.n >= e.lo /\ (e.hi = -1 \/ e.n <= e.hi) /\ Constructible(16, e.n) IN
        /\ e.built = fits
        /\ fits => (e.enclen = wrap + Len(ItemHeader(16, e.n)) + e.n
                    /\ SubSeq(e.head, wrap + 1, wrap + Len(ItemHeader(16, e.n))) = ItemHeader(16, e.n))
   ELSE /\ e.built = Constructible(0, e.n)
        /\ e.built => e.enclen = 2 + Len(ItemHeader(0, e.n)) + 3 * e.n + 3
InvApp == l > 0 => PropApp(E)
InvAppStream == l > 0 => AppStream(E)
InvSeq == l > 0 => PropSeq(E) /\ PropFlat(E) /\ PropRoute(E)
InvExpect == l > 0 => PropExpect(E)
InvC01 == l > 0 => PropC01(E)
InvC02 == l > 0 => PropC02(E)
InvC03 == l > 0 => PropC03(E)
InvC13 == l > 0 => PropC13(E)
InvAgreeDecoder == l > 0 => AgreeDecoder(E)
InvC07 == l > 0 => PropC07(E)
InvC14 == l > 0 => PropC14(E)
InvVal == l > 0 => PropVal(E)
InvHdr == l > 0 => PropHdr(E)
InvBig == l > 0 => PropBig(E)
=====================================================================
