SPECIFICATION Spec
CONSTANTS
  MaxPool = 3
  Depth = 0
VIEW View
INVARIANT AllRepOK
PROPERTIES AppendOnly Frame
CHECK_DEADLOCK FALSE
