SPECIFICATION Spec
CONSTANTS
  Block = 65536
  Stride = 1
INVARIANT BlockOK
CHECK_DEADLOCK FALSE
