---------------------------- MODULE MCCtor ----------------------------
(* C12 at model level: the domain rule the trace checks use for integer     *)
(* items (Secs2!ElemInDomain: a comparison of magnitudes) says the same as  *)
(* the encoding: a value is in the domain of a format of w bytes exactly    *)
(* when its two's-complement (or plain binary) image in w bytes reads back  *)
(* as the value itself - "nothing wraps around".  Checked for every integer *)
(* format on +-(2^k + d), k in 0..65, d in -2..2, and on 0.  For the float  *)
(* formats: a bit pattern is in the domain iff its exponent is not all      *)
(* ones, for every exponent and a palette of mantissas.                     *)
EXTENDS Items, TLC
\* 2^k + d as a Num, from bits
Bit(bs, j) == IF j < Len(bs) THEN bs[Len(bs) - j] ELSE 0
Byte(bs, p) == LET RECURSIVE S(_)
                   S(j) == IF j = 8 THEN 0 ELSE Bit(bs, 8 * p + j) * (2 ^ j) + S(j + 1) IN S(0)
BitsToNum(bs) == TrimZ([i \in 1..((Len(bs) + 7) \div 8) |-> Byte(bs, i - 1)])
Pow(k) == BitsToNum([i \in 1..(k + 1) |-> IF i = 1 THEN 1 ELSE 0])
RECURSIVE AddSmall(_, _)
AddSmall(x, c) == IF c = 0 THEN x ELSE IF x = <<>> THEN <<c>> ELSE
                  LET v == x[1] + c IN <<v % 256>> \o AddSmall(Tail(x), v \div 256)
RECURSIVE SubSmall(_, _)      \* x >= c
SubSmall(x, c) == IF c = 0 THEN x ELSE LET v == x[1] - c IN
                  IF v >= 0 THEN <<v>> \o Tail(x) ELSE <<v + 256>> \o SubSmall(Tail(x), 1)
Mag(k, d) == IF d >= 0 THEN TrimZ(AddSmall(Pow(k), d)) ELSE TrimZ(SubSmall(Pow(k), -d))
Dec(x) == LET s == DecStr(x) IN [i \in 1..Len(s) |-> s[i] - 48]
J(neg, ds) == [neg |-> neg, dec |-> ds]
ASSUME /\ ElemInDomain(25, J(FALSE, <<1, 2, 7>>)) /\ ~ElemInDomain(25, J(FALSE, <<1, 2, 8>>)) /\ ElemInDomain(25, J(TRUE, <<1, 2, 8>>)) /\ ~ElemInDomain(25, J(TRUE, <<1, 2, 9>>))
       /\ ~ElemInDomain(41, J(TRUE, <<1>>)) /\ ElemInDomain(41, J(FALSE, <<2, 5, 5>>)) /\ ~ElemInDomain(41, J(FALSE, <<2, 5, 6>>))
       /\ ElemInDomain(40, J(FALSE, Dec(Mag(64, -1)))) /\ ~ElemInDomain(40, J(FALSE, Dec(Mag(64, 0)))) /\ ElemInDomain(24, J(TRUE, Dec(Mag(63, 0)))) /\ ~ElemInDomain(24, J(FALSE, Dec(Mag(63, 0))))
       /\ Dec(Mag(64, 0)) = <<1,8,4,4,6,7,4,4,0,7,3,7,0,9,5,5,1,6,1,6>> /\ IntBytes(OfJson(J(TRUE, <<1>>)), 2) = <<255, 255>>
VARIABLES v, sel
None == [none |-> TRUE]
Init == v = None /\ sel \in 0..65
Next == /\ v = None /\ UNCHANGED sel
        /\ \/ \E d \in -2..2, neg \in BOOLEAN : (sel >= 2 \/ d >= 0) /\ v' = [neg |-> neg, dec |-> Dec(Mag(sel, d))]
           \/ sel = 0 /\ v' = [neg |-> FALSE, dec |-> <<0>>]
CtorSpec == Init /\ [][Next]_<<v, sel>>
IntCodes == SignedCodes \cup UnsignedCodes
NoWrap == v = None \/ \A c \in IntCodes :
   LET x == OfJson(v)  w == Width(c)  img == IntBytes(x, w)
       back == IF c \in SignedCodes THEN SignedOfBytes(img) ELSE UnsignedOfBytes(img) IN
   /\ ElemInDomain(c, v) = (back = x)
   /\ ElemInDomain(c, v) => ElemBytes(c, v) = img /\ Len(img) = w
\* every value is in the domain of the widest format of its sign class or of none; domains are nested
Nested == v = None \/
   /\ \A c \in {25, 26, 28} : ElemInDomain(c, v) => ElemInDomain(24, v)
   /\ \A c \in {41, 42, 44} : ElemInDomain(c, v) => ElemInDomain(40, v)
   /\ ElemInDomain(25, v) => ElemInDomain(26, v) /\ (ElemInDomain(26, v) => ElemInDomain(28, v))
   /\ ElemInDomain(41, v) => ElemInDomain(42, v) /\ (ElemInDomain(42, v) => ElemInDomain(44, v))
   /\ (OfJson(v).neg => \A c \in UnsignedCodes : ~ElemInDomain(c, v))
\* floats: in the domain iff finite
FloatDomain == sel # 0 \/ v = None \/
   /\ \A e \in 0..255, m \in {0, 1, 64, 127} : \A s \in {0, 128} :
        LET b == <<s + e \div 2, (e % 2) * 128 + m, 0, m>> IN ElemInDomain(36, [bits |-> b]) = (e # 255)
   /\ \A e \in {0, 1, 1023, 2046, 2047}, m \in {0, 1, 15} : \A s \in {0, 128} :
        LET b == <<s + e \div 16, (e % 16) * 16 + m, 0, 0, 0, 0, 0, m>> IN ElemInDomain(32, [bits |-> b]) = (e # 2047)
=====================================================================
