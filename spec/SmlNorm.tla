---------------------------- MODULE SmlNorm ----------------------------
(* The lexer and parser models instantiated on a text, and the normal forms  *)
(* in which recorded (projected) messages and the parser model's messages   *)
(* are compared.  Shared by TraceSml and MCPrintParse.                      *)
EXTENDS SmlPrinter
CONSTANTS AsIsD10, AsIsD12
Lx(t) == INSTANCE SmlLexer WITH input <- t
P(t, fo) == INSTANCE SmlParser WITH input <- t, floats <- fo

\* ------------------------------------------------------------------ normal forms
\* recorded (projected) messages
NormElJ(x) == IF "var" \in DOMAIN x THEN [var |-> x.var]
              ELSE IF "b" \in DOMAIN x THEN [b |-> x.b]
              ELSE IF "t" \in DOMAIN x THEN [t |-> x.t]
              ELSE IF "bits" \in DOMAIN x THEN [bits |-> x.bits]
              ELSE OfJson(x)
RECURSIVE NormJ(_)
NormJ(x) == IF x.f = "none" THEN [f |-> "none"]
            ELSE IF x.f = "L" THEN [f |-> "L", e |-> [i \in 1..Len(x.e) |->
                    IF IsItem(x.e[i]) THEN NormJ(x.e[i]) ELSE IF IsEllEl(x.e[i]) THEN [ell |-> x.e[i].ell] ELSE [var |-> x.e[i].var]]]
            ELSE IF x.f = "A" THEN (IF "var" \in DOMAIN x
                                    THEN [f |-> "A", var |-> x.var, lo |-> FromDec(x.lo.dec), hi |-> IF x.hi.neg THEN <<>> ELSE FromDec(x.hi.dec), hasHi |-> ~x.hi.neg]
                                    ELSE [f |-> "A", s |-> x.s])
            ELSE [f |-> x.f, e |-> [i \in 1..Len(x.e) |-> NormElJ(x.e[i])]]
NormMsgJ(m) == [name |-> m.name, s |-> m.s, f |-> m.f, w |-> m.w, dir |-> m.dir, item |-> NormJ(m.item)]
\* model messages: float elements resolved through the oracle
FloatBits(fo, cs, w) == LET I == {i \in 1..Len(fo) : fo[i].tok = cs /\ fo[i].w = w} IN
                        IF I = {} THEN <<>> ELSE fo[CHOOSE i \in I : TRUE].bits
RECURSIVE NormM(_, _)
NormM(v, fo) == IF v.f = "none" THEN [f |-> "none"]
                ELSE IF v.f = "L" THEN [f |-> "L", e |-> [i \in 1..Len(v.e) |-> IF "f" \in DOMAIN v.e[i] THEN NormM(v.e[i], fo) ELSE v.e[i]]]
                ELSE IF v.f = "A" THEN v
                ELSE IF v.f \in {"F4", "F8"} THEN [f |-> v.f, e |-> [i \in 1..Len(v.e) |->
                        IF "fl" \in DOMAIN v.e[i] THEN [bits |-> FloatBits(fo, v.e[i].fl, Width(CodeOf(v.f)))] ELSE v.e[i]]]
                ELSE v
NormMsgM(m, fo) == [m EXCEPT !.item = NormM(m.item, fo)]
=====================================================================
