---------------------------- MODULE SmlPrinter ----------------------------
(* What String() writes, as character codes: the SML form of items and      *)
(* messages.  Floats are printed by Go's shortest-form conversion, which    *)
(* the specification does not restate: their text is supplied by the        *)
(* harness (field txt) and only placed here.                                *)
EXTENDS Items

RECURSIVE BinStr(_)
BinStr(v) == IF v < 2 THEN <<48 + v>> ELSE Append(BinStr(v \div 2), 48 + (v % 2))
Hex2(v) == LET h(d) == IF d < 10 THEN 48 + d ELSE 55 + d IN <<h(v \div 16), h(v % 16)>>
RECURSIVE JoinSp(_)
JoinSp(ss) == IF ss = <<>> THEN <<>> ELSE IF Len(ss) = 1 THEN ss[1] ELSE ss[1] \o <<32>> \o JoinSp(Tail(ss))
Indent(n) == [i \in 1..(2 * n) |-> 32]
Digits(ds) == IF ds = <<>> THEN <<48>> ELSE [i \in 1..Len(ds) |-> 48 + ds[i]]
RECURSIVE StripLeadZ(_)
StripLeadZ(ds) == IF Len(ds) > 1 /\ ds[1] = 0 THEN StripLeadZ(Tail(ds)) ELSE ds
IsZeroDec(ds) == \A i \in 1..Len(ds) : ds[i] = 0
IntText(x) == (IF x.neg /\ ~IsZeroDec(x.dec) THEN <<45>> ELSE <<>>) \o Digits(StripLeadZ(x.dec))
ElemText(x) == IF "var" \in DOMAIN x THEN x.var
               ELSE IF "b" \in DOMAIN x THEN <<48, 98>> \o BinStr(x.b)
               ELSE IF "t" \in DOMAIN x THEN (IF x.t THEN <<84>> ELSE <<70>>)
               ELSE IF "bits" \in DOMAIN x THEN x.txt
               ELSE IntText(x)
\* characters that are written inside double quotes; everything else is written as a 0xNN code
Quotable(c) == c >= 32 /\ c # 127 /\ c # 34
RECURSIVE AsciiBody(_, _, _)
AsciiBody(s, i, open) ==
  IF i > Len(s) THEN (IF open THEN <<34>> ELSE <<>>)
  ELSE IF ~Quotable(s[i])
       THEN (IF open THEN <<34>> ELSE <<>>) \o <<32, 48, 120>> \o Hex2(s[i]) \o AsciiBody(s, i + 1, FALSE)
       ELSE (IF open THEN <<>> ELSE <<32, 34>>) \o <<s[i]>> \o AsciiBody(s, i + 1, TRUE)
BoundText(b) == IntText(b)
AsciiVarSize(lo, hi) == IF IsZeroDec(lo.dec) /\ hi.neg THEN <<>>
                        ELSE IF lo = hi THEN <<91>> \o BoundText(hi) \o <<93>>
                        ELSE IF hi.neg THEN <<91>> \o BoundText(lo) \o <<46, 46, 93>>
                        ELSE <<91>> \o BoundText(lo) \o <<46, 46>> \o BoundText(hi) \o <<93>>
TypeChars(f) == CASE f = "L" -> <<76>> [] f = "A" -> <<65>> [] f = "B" -> <<66>> [] f = "BOOLEAN" -> <<66, 79, 79, 76, 69, 65, 78>>
                  [] f = "F4" -> <<70, 52>> [] f = "F8" -> <<70, 56>> [] f = "I1" -> <<73, 49>> [] f = "I2" -> <<73, 50>>
                  [] f = "I4" -> <<73, 52>> [] f = "I8" -> <<73, 56>> [] f = "U1" -> <<85, 49>> [] f = "U2" -> <<85, 50>>
                  [] f = "U4" -> <<85, 52>> [] f = "U8" -> <<85, 56>>
RECURSIVE PrintItem(_, _), PrintLines(_, _, _)
\* the text of an item at an indentation level, without a trailing line break
PrintItem(x, lvl) ==
  IF x.f = "L" THEN
       IF x.e = <<>> THEN Indent(lvl) \o <<60, 76, 91, 48, 93, 62>>
       ELSE LET det == \A i \in 1..Len(x.e) : IsItem(x.e[i])      \* size shown only if no variable / ellipsis child
            IN Indent(lvl) \o <<60, 76>> \o (IF det THEN <<91>> \o DecChars(Len(x.e)) \o <<93>> ELSE <<>>) \o <<10>>
               \o PrintLines(x.e, 1, lvl) \o Indent(lvl) \o <<62>>
  ELSE IF x.f = "A" THEN
       IF "var" \in DOMAIN x THEN <<60, 65>> \o AsciiVarSize(x.lo, x.hi) \o <<32>> \o x.var \o <<62>>
       ELSE IF x.s = <<>> THEN <<60, 65, 91, 48, 93, 62>>
       ELSE <<60, 65>> \o AsciiBody(x.s, 1, FALSE) \o <<62>>
  ELSE LET ty == TypeChars(x.f) IN
       IF x.e = <<>> THEN <<60>> \o ty \o <<91, 48, 93, 62>>
       ELSE <<60>> \o ty \o <<91>> \o DecChars(Len(x.e)) \o <<93, 32>>
            \o JoinSp([i \in 1..Len(x.e) |-> ElemText(x.e[i])]) \o <<62>>
PrintLines(es, i, lvl) ==
  IF i > Len(es) THEN <<>>
  ELSE (IF IsVarEl(es[i]) THEN Indent(lvl + 1) \o es[i].var
        ELSE IF IsEllEl(es[i]) THEN Indent(lvl + 1) \o <<46, 46, 46>>
        ELSE IF es[i].f = "L" THEN PrintItem(es[i], lvl + 1)
        ELSE Indent(lvl + 1) \o PrintItem(es[i], 0)) \o <<10>> \o PrintLines(es, i + 1, lvl)
DirChars(d) == IF d = "H->E" THEN <<72, 45, 62, 69>> ELSE IF d = "H<-E" THEN <<72, 60, 45, 69>> ELSE <<72, 60, 45, 62, 69>>
PrintHeader(msg) == <<83>> \o DecChars(msg.s) \o <<70>> \o DecChars(msg.f)
                    \o (IF msg.w = "true" THEN <<32, 87>> ELSE IF msg.w = "optional" THEN <<32, 91, 87, 93>> ELSE <<>>)
                    \o <<32>> \o DirChars(msg.dir) \o (IF msg.name = <<>> THEN <<>> ELSE <<32>> \o msg.name)
PrintMsg(msg) == IF msg.item.f = "none" THEN PrintHeader(msg) \o <<10, 46>>
                 ELSE PrintHeader(msg) \o <<10>> \o PrintItem(msg.item, 0) \o <<10, 46>>
PrintAny(x) == IF x.f = "none" THEN <<>> ELSE PrintItem(x, 0)
=====================================================================
