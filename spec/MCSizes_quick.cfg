SPECIFICATION SizeSpec
CONSTANTS
  MaxB = 3
  MaxN = 4
  AsIsD10 = FALSE
  AsIsD12 = FALSE
INVARIANTS Agrees EmitCase
CHECK_DEADLOCK FALSE
