---------------------------- MODULE TraceItems ----------------------------
(* Trace validation of the item algebra: observers (C16), filling           *)
(* variables = substitution (C09), constructors store or refuse (C12).      *)
(* Events come from the harness drivers snap, fill, ctor.                   *)
EXTENDS SmlPrinter, Ellipsis, Json, TLC
CONSTANT ChunkSize
Trace == ndJsonDeserialize("trace.ndjson")
VARIABLE l
E == Trace[l]
TInit == l = 0
TNext == \/ l = 0 /\ l' \in {-k : k \in {j \in 1..Len(Trace) : j % ChunkSize = 1 \/ ChunkSize = 1}}   \* enter a chunk (no check yet,
         \/ l < 0 /\ l' = -l                                  \* so that chunk heads are checked by different workers)
         \/ l > 0 /\ l < Len(Trace) /\ l % ChunkSize # 0 /\ l' = l + 1
TSpec == TInit /\ [][TNext]_l

\* ------------------------------------------------------------------ normal form of value-level items
NormEl(x) == IF "var" \in DOMAIN x THEN [var |-> x.var]
             ELSE IF "b" \in DOMAIN x THEN [b |-> x.b]
             ELSE IF "t" \in DOMAIN x THEN [t |-> x.t]
             ELSE IF "bits" \in DOMAIN x THEN [bits |-> x.bits]
             ELSE OfJson(x)
RECURSIVE Norm(_)
Norm(x) == IF x.f = "none" THEN [f |-> "none"]
           ELSE IF x.f = "L" THEN [f |-> "L", e |-> [i \in 1..Len(x.e) |->
                   IF IsItem(x.e[i]) THEN Norm(x.e[i]) ELSE IF IsEllEl(x.e[i]) THEN [ell |-> x.e[i].ell] ELSE [var |-> x.e[i].var]]]
           ELSE IF x.f = "A" THEN (IF "var" \in DOMAIN x THEN [f |-> "A", var |-> x.var, lo |-> Bound(x.lo), hi |-> Bound(x.hi)]
                                   ELSE [f |-> "A", s |-> x.s])
           ELSE [f |-> x.f, e |-> [i \in 1..Len(x.e) |-> NormEl(x.e[i])]]

\* ------------------------------------------------------------------ words of a printed form
\* maximal runs of characters other than blank, line break, '<' and '>'
RECURSIVE WordsFrom(_, _, _)
WordsFrom(s, i, cur) ==
  IF i > Len(s) THEN (IF cur = <<>> THEN <<>> ELSE <<cur>>)
  ELSE IF s[i] \in {32, 10, 60, 62} THEN (IF cur = <<>> THEN <<>> ELSE <<cur>>) \o WordsFrom(s, i + 1, <<>>)
  ELSE WordsFrom(s, i + 1, Append(cur, s[i]))
Words(s) == WordsFrom(s, 1, <<>>)
Shown(n) == IF IsEllipsisName(n) THEN <<46, 46, 46>> ELSE n

\* ------------------------------------------------------------------ C16
ItemOf(e) == IF e.kind = "msg" THEN e.abs.item ELSE e.abs
MsgComplete(a) == a.w # "optional" /\ Vars(a.item) = <<>> /\ a.sid # -1
PropC16(e) == e.ev = "snap" =>
  LET x == ItemOf(e)  vs == Vars(x) IN
  /\ e.vars = vs /\ NoDup(e.vars)                                    \* every unfilled variable exactly once
  /\ e.vars2 = e.vars /\ e.bytes2 = e.bytes                          \* ... whatever the caller did to the previous answer
  \* ... in the order in which the names appear in the printed form
  /\ LET shown == [i \in 1..Len(vs) |-> Shown(vs[i])]
         S == {shown[i] : i \in 1..Len(shown)}
     IN SelectSeq(Words(e.string), LAMBDA w : w \in S) = shown
  /\ e.kind = "item" => /\ (e.bytes # <<>>) = (vs = <<>>)            \* encodable iff no variable is left
                        /\ e.size = SizeOf(x)
  /\ e.kind = "msg" => (e.bytes # <<>>) = MsgComplete(e.abs)
\* an explicit empty item as a list element (nothing to print, nothing to encode): the factory or the fill may refuse it; if
\* the tree is built, it encodes iff its variable list is empty like any other item, and apart from entries that stand for
\* the empty positions (the code lists them under the name "", and so never encodes such a tree) the list names exactly
\* the real variables, in order; the same for a message on it whose wait bit and session id are set
NonEmptyNames(vs) == SelectSeq(vs, LAMBDA n : n # <<>>)
PropC16Empty(e) == e.ev = "snapempty" =>
  (e.built =>
     /\ (e.bytes # <<>>) = (e.vars = <<>>)                     \* encodable iff the variable list is empty
     /\ NonEmptyNames(e.vars) = e.real
     /\ e.msgbuilt => ((e.msgbytes # <<>>) = (e.msgvars = <<>>) /\ NonEmptyNames(e.msgvars) = e.real))
AgreeC16(e) == e.ev = "snap" =>
  /\ e.kind = "item" => e.string = PrintItem(e.abs, 0) /\ e.bytes = ItemBytes(e.abs)
  \* the length bounds an ASCII variable reports are the ones it enforces (stored); (-2, -2) for a literal
  /\ (e.kind = "item" /\ e.hasfisl) =>
        IF "var" \in DOMAIN e.abs THEN e.fisl.lo = e.abs.lo /\ e.fisl.hi = e.abs.hi
        ELSE e.fisl.lo = [neg |-> TRUE, dec |-> <<2>>] /\ e.fisl.hi = [neg |-> TRUE, dec |-> <<2>>]
  /\ e.kind = "msg" => e.string = PrintMsg(e.abs) /\ e.header = PrintHeader(e.abs)

\* ------------------------------------------------------------------ C09
Same(a, b) == a.outcome = "ok" /\ b.outcome = "ok" /\ Norm(a.abs) = Norm(b.abs)
              /\ a.string = b.string /\ a.bytes = b.bytes /\ a.vars = b.vars /\ a.size = b.size
PropC09(e) == e.ev = "fill" =>
  LET t == e.tmpl.abs
      exp == Subst(t, e.sigma)
      \* (a string filled into a variable of an array item renames it: the names must stay distinct)
      ok == FillOK(t, e.sigma, TRUE) /\ NoDup(Vars(exp))
      okDirect == FillOK(t, e.sigma, FALSE) /\ NoDup(Vars(exp)) IN     \* a literal ASCII item has no length bounds of its own
  \* a fill-in value outside the domain is refused, by the fill exactly as by the constructor
  /\ e.once.outcome = (IF ok THEN "ok" ELSE "refused")
  /\ e.steps.outcome = e.once.outcome
  /\ e.direct.outcome = (IF okDirect THEN "ok" ELSE "refused")
  /\ ok => /\ Norm(e.once.abs) = Norm(exp)                           \* pure substitution, unknown keys ignored
           /\ e.once.vars = Vars(exp)                                 \* unmentioned variables remain, in order (a renamed one under its new name)
           /\ Same(e.once, e.steps) /\ Same(e.once, e.direct)         \* several steps = once = built directly
           /\ (RemainingVars(t, e.sigma) = <<>> =>
                 e.msgfill.outcome = "ok" /\ e.msgdirect.outcome = "ok" /\ e.msgfill.bytes # <<>>
                 /\ e.msgfill.bytes = e.msgdirect.bytes)

\* ... through an ellipsis: the repeat counts and the values for the names the expansion generates, in one call and
\* in two. The result is the documented expansion (Ellipsis!Spec) with the values in place; where the expansion would
\* give one name twice (the template already holds a name of the generated shape) the fill is refused.
PropC09e(e) == e.ev = "fillell" =>
  LET t1 == Spec(e.tmpl.abs, e.cnt) IN
  IF ~NoDup(Vars(t1)) THEN e.expand.outcome = "refused" /\ e.once.outcome = "refused" /\ e.steps.outcome = "refused"
  ELSE LET ok == FillOK(t1, e.sigma, TRUE)  exp == Subst(t1, e.sigma) IN
       /\ e.expand.outcome = "ok"
       /\ e.once.outcome = (IF ok THEN "ok" ELSE "refused") /\ e.steps.outcome = e.once.outcome
       /\ ok => /\ Norm(e.once.abs) = Norm(exp) \/ Norm(e.once.abs) = Norm(Subst(SpecNumbered(e.tmpl.abs, e.cnt), e.sigma))
                \* (a single remaining ellipsis may be called ... or ...[0], as in C10)
                /\ e.once.vars = RemainingVars(t1, e.sigma) \/ e.once.vars = RemainingVars(SpecNumbered(e.tmpl.abs, e.cnt), e.sigma)
                /\ Same(e.once, e.steps)

\* C18 for a fill through a message, ellipses included: the item tree becomes what filling the item alone gives, every
\* other field is carried over
PropC18e(e) == e.ev = "fillell" =>
  /\ e.msgafter.outcome = e.once.outcome
  /\ e.once.outcome = "ok" =>
        /\ Norm(e.msgafter.item) = Norm(e.once.abs)
        /\ \A fld \in {"name", "s", "f", "w", "dir", "sid", "sys"} : e.msgafter[fld] = e.msgbefore[fld]

\* ------------------------------------------------------------------ C12
BinLiteral(cs) == \* ^0b[01]+$ with a value below 256
   IF Len(cs) >= 3 /\ cs[1] = 48 /\ cs[2] = 98 /\ \A i \in 3..Len(cs) : cs[i] \in {48, 49}
   THEN LET RECURSIVE V(_, _)
            V(i, acc) == IF i > Len(cs) THEN acc ELSE V(i + 1, IF acc > 1000 THEN acc ELSE acc * 2 + (cs[i] - 48))
        IN V(3, 0)
   ELSE -1
ValidDir(d) == d \in {"H->E", "H<-E", "H<->E"}
Pad4(s) == [i \in 1..4 |-> IF i <= Len(s) THEN s[i] ELSE 0]
PropC12(e) ==
  /\ e.ev = "ctor" =>
       LET c == CodeOf(e.f)  dom == ArgInDomain(c, e.arg)
           \* an argument of a Go type the factory is not documented to take (a float for an integer item) may be refused
           \* whatever its value; if it is taken, it is taken like any other
           foreign == "foreign" \in DOMAIN e IN
       /\ IF foreign THEN (e.res.outcome = "refused" \/ dom) /\ (e.fillres.outcome = "refused" \/ dom)
          ELSE e.res.outcome = (IF dom THEN "ok" ELSE "refused")
       /\ foreign \/ e.fillres.outcome = e.res.outcome                 \* a fill is refused exactly as the factory refuses
       /\ (foreign /\ e.fillres.outcome = "ok") => (NormEl(e.fillres.abs.e[1]) = NormEl(e.arg)
                                                     /\ e.fillres.bytes = EncItem(ByteLevel([f |-> e.f, e |-> <<e.arg>>])))
       /\ (~foreign /\ "fillres2" \in DOMAIN e) => (e.fillres2.outcome = e.res.outcome /\ (dom => e.fillres2.bytes = e.res.bytes))
       /\ (dom /\ e.res.outcome = "ok" /\ (foreign => e.fillres.outcome = "ok")) =>
                 /\ NormEl(e.res.abs.e[e.pos + 1]) = NormEl(e.arg)      \* stored
                 /\ Words(e.res.string)[2 + e.pos] = ElemText(e.arg)    \* printed
                 /\ e.res.bytes = EncItem(ByteLevel([f |-> e.f, e |-> (IF e.pos = 1 THEN <<e.first, e.arg>> ELSE <<e.arg>>)
                                                                        \o (IF "none" \in DOMAIN e.after THEN <<>> ELSE <<e.after>>)]))
                 /\ NormEl(e.fillres.abs.e[1]) = NormEl(e.arg)
                 /\ e.fillres.bytes = EncItem(ByteLevel([f |-> e.f, e |-> <<e.arg>>]))
  /\ e.ev = "ctorbin" => LET v == BinLiteral(e.text) IN
       IF v \in 0..255 THEN e.res.outcome = "ok" /\ e.res.abs.e = <<[b |-> v]>> /\ e.res.bytes = <<33, 1, v>>
       ELSE e.res.outcome = "refused"
  /\ e.ev = "ctorascii" =>
       IF \A i \in 1..Len(e.runes) : e.runes[i] \in 0..127
       THEN e.res.outcome = "ok" /\ e.res.abs.s = e.runes /\ e.res.size = Len(e.runes)
       ELSE e.res.outcome = "refused"
  /\ e.ev = "ctorname" =>
       LET v == ValidVarName(e.name)  el == IsEllipsisName(e.name)  o(b) == IF b THEN "ok" ELSE "refused" IN
       /\ e.array = o(v) /\ e.ascii = o(v) /\ e.list1 = o(v)
       /\ e.list2 = o(v \/ el) /\ e.dup = "refused" /\ e.twoell = o(v)
       \* no name occurs twice anywhere in a tree, however the tree comes about
       /\ e.dupsib = "refused" /\ e.dupcousin = "refused" /\ e.duprename = "refused" /\ e.dupinsert = "refused" /\ e.dupinsertdeep = "refused"
       /\ e.dupnest = "refused" /\ e.dupnestfill = "refused"        \* (repeat markers included)
       /\ e.dupgen = "refused" /\ e.dupgenfill = "refused"          \* (names generated by an expansion included)
       /\ e.dupsameU = "refused" /\ e.dupsameI = "refused" /\ e.dupsameF = "refused" /\ e.dupsameB = "refused" /\ e.dupsameT = "refused" /\ e.dupsamewide = "refused" /\ e.dupsameRI = "refused" /\ e.dupsameRU = "refused" /\ e.dupsameRF = "refused" /\ e.dupsameRT = "refused"
  /\ e.ev = "ctorbounds" =>
       LET lo == e.lo  hi == e.hi
           ok == ~lo.neg /\ (~hi.neg \/ hi.dec = <<1>>) /\ (hi.neg \/ Cmp(FromDec(lo.dec), FromDec(hi.dec)) <= 0) IN
       e.res.outcome = (IF ok THEN "ok" ELSE "refused")
  /\ e.ev = "ctormsg" =>
       LET ok == /\ e.s \in 0..127 /\ e.f \in 0..255 /\ ValidDir(e.dir) /\ ~e.namespace
                 /\ e.w \in (IF e.hsms THEN {0, 1} ELSE {0, 1, 2}) /\ ~(e.w = 1 /\ e.f % 2 = 0)
                 /\ (~e.hsms \/ e.sid \in 0..65535) IN
       /\ e.refused = ~ok
       /\ ok => /\ e.msg.s = e.s /\ e.msg.f = e.f /\ WNum(e.msg.w) = e.w /\ e.msg.dir = e.dir /\ e.msg.name = e.name
                /\ e.msg.sid = (IF e.hsms THEN e.sid ELSE -1)
                /\ e.msg.sys = (IF e.hsms THEN Pad4(e.sys) ELSE <<0, 0, 0, 0>>)

InvC16 == l > 0 => PropC16(E) /\ PropC16Empty(E)
InvAgreeC16 == l > 0 => AgreeC16(E)
\* a value that brings its own variables is inserted as is: they are the result's variables and can be filled by a later
\* call like any other (whatever depth the insertion happened at); a name it brings that the template already uses is refused
PropC09b(e) == e.ev = "fillbring" =>
  LET t == e.tmpl.abs  w1 == Subst(t, e.sigma1)  w2 == Subst(w1, e.sigma2) IN
  IF ~NoDup(Vars(w1)) THEN e.one.outcome = "refused"
  ELSE /\ e.one.outcome = "ok" /\ Norm(e.one.abs) = Norm(w1) /\ e.one.vars = Vars(w1)
       /\ e.two.outcome = "ok" /\ Norm(e.two.abs) = Norm(w2) /\ e.two.vars = Vars(w2)
       /\ Same(e.two, e.direct)
       \* the value together with values for the variables it brings, in one call: keys that name nothing in the template
       \* are ignored, so the result is w1 again
       /\ ("oncall" \in DOMAIN e /\ ~e.clash) => e.oncall.outcome = "ok" /\ Norm(e.oncall.abs) = Norm(w1) /\ e.oncall.vars = Vars(w1)
\* a fill-in string around the largest item there can be (16 777 215 characters): refused exactly as the factory refuses
\* it - beyond the limit, whatever upper bound the variable declares - and otherwise the item holds all of it
PropC09big(e) == e.ev = "fillbig" =>
  /\ (e.ctor.outcome = "refused") = (e.n > 16777215)
  /\ e.fill.outcome = e.ctor.outcome
  /\ e.fill.outcome = "ok" => e.fill.size = e.n /\ e.fill.enc = e.n + 4 /\ e.ctor.size = e.n /\ e.ctor.enc = e.n + 4
\* one call that fills a repeat marker and puts a list that is live elsewhere (with a variable of its own, held by another
\* parent, or the template itself) into a list-level variable: it returns (the worker's parent records a process that dies
\* in it as "abort"), it equals the fill in two steps, and nothing that existed before it is different afterwards
PropC09s(e) == e.ev = "fillself" => e.outcome = "returned" /\ e.same /\ e.pure
InvC09s == l > 0 => PropC09s(E)
InvC09 == l > 0 => PropC09(E) /\ PropC09e(E) /\ PropC18e(E) /\ PropC09b(E) /\ PropC09big(E)
InvC18e == l > 0 => PropC18e(E)
InvC12 == l > 0 => PropC12(E)
=====================================================================
