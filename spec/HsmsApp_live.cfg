SPECIFICATION FairSpec
CONSTANTS
  MaxSys = 2
  MaxChan = 1
  Depth = 0
  Rich = FALSE
  StartSelected = FALSE
PROPERTY Settles
CHECK_DEADLOCK FALSE
