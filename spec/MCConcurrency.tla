---------------------------- MODULE MCConcurrency ----------------------------
(* Enumerates the concurrent configurations of Concurrency (which calls     *)
(* overlap on which shared object) for the Go replayer.                     *)
EXTENDS Concurrency, FiniteSetsExt, SequencesExt
MC_Workers == {"w1", "w2", "w3"}
Emit == Cardinality({w \in Workers : running[w] # Idle}) >= 2 =>
          PrintT("CASE " \o ToJson([calls |-> SetToSeq(Config(running)), n |-> Cardinality({w \in Workers : running[w] # Idle}),
                                    all |-> [w \in Workers |-> IF running[w] = Idle THEN [op |-> "idle", obj |-> ""] ELSE [op |-> running[w].op, obj |-> running[w].obj]]]))
=====================================================================
