---------------------------- MODULE MCDecoder ----------------------------
(* Bounded exhaustive instance of HsmsDecoder: every text of length <= N    *)
(* over an alphabet of control-flow-relevant bytes behind a good header,    *)
(* and every text of length <= NH behind each header variant (wrong length  *)
(* field, PType, every SType class, W-bit on even/odd functions).  Each     *)
(* input is then run through the machine step by step.                      *)
EXTENDS HsmsDecoder, Json
CONSTANTS N, NH
\* format bytes: L/1 L/2 L/3 L/0, B/1, BOOLEAN/1, A/1, I1/1, I2/1, F4/1, U8/1, undefined code 1/1, 0x7F 0x80 0xFF
Alpha == {0, 1, 2, 3, 4, 5, 33, 37, 65, 101, 105, 145, 161, 127, 128, 255}
BaseHS == [delta |-> 0, ptype |-> 0, stype |-> 0, wb |-> 129, f |-> 1]
HeaderSpecs == {BaseHS} \cup
               { [delta |-> d, ptype |-> p, stype |-> t, wb |-> w, f |-> f] :
                   d \in {0, 1, -1}, p \in {0, 1}, t \in {0, 1, 7, 8, 9, 10, 255}, w \in {1, 129}, f \in {1, 2} }
VARIABLES hs, text, phase
allvars == <<input, m, hs, text, phase>>
MkMsg(h, t) == BE4(Len(t) + 10 + h.delta) \o <<0, 7, h.wb, h.f, h.ptype, h.stype, 1, 2, 3, 4>> \o t
Limit(h) == IF h = BaseHS THEN N ELSE NH
Init == /\ hs \in HeaderSpecs /\ text = <<>> /\ phase = "grow"
        /\ input = MkMsg(hs, <<>>) /\ m = M0
Grow == /\ phase = "grow" /\ Len(text) < Limit(hs)
        /\ \E b \in Alpha : text' = Append(text, b) /\ input' = MkMsg(hs, Append(text, b))
        /\ UNCHANGED <<m, hs, phase>>
Start == phase = "grow" /\ phase' = "run" /\ UNCHANGED <<input, m, hs, text>>
RunStep == phase = "run" /\ Next /\ UNCHANGED <<hs, text, phase>>
MCNext == Grow \/ Start \/ RunStep
MCSpec == Init /\ [][MCNext]_allvars /\ WF_allvars(RunStep)
\* the operator form (used by the trace specifications) is the same machine
OperatorFormAgrees == (phase = "run" /\ Final(m)) => m = Run(input)
Terminates == (phase = "run") ~> Final(m)
MCProgress == [][phase = "run" => (m'.pos >= m.pos /\ (m'.pos > m.pos \/ Rank(m'.st) < Rank(m.st) \/ Final(m')))]_allvars
\* re-encoding what the grammar accepts is a fixed point and never longer than the input
ReencodeIsNormal == phase = "grow" => LET r == DecMsg(input) IN
     r.ok => LET again == DecMsg(EncMsg(r.msg)) IN again.ok /\ again.msg = r.msg /\ Len(EncMsg(r.msg)) <= Len(input)
\* TLC -> Go: the table of accepted texts (base header) with the re-encoding the specification demands
EmitAccepted == (phase = "run" /\ m.st = "accept" /\ hs = BaseHS) =>
     PrintT("CASE " \o ToJson([text |-> text, re |-> EncMsg(m.hd)]))
=====================================================================
