---------------------------- MODULE TraceConc ----------------------------
(* Trace validation for C17: each event is one concurrent configuration of  *)
(* Concurrency.tla executed by real goroutines in a -race build.  A data    *)
(* race report kills the worker (outcome "abort"); otherwise every call     *)
(* must have returned what the same call returns alone.                     *)
EXTENDS Concurrency, Sequences
CONSTANT ChunkSize
Trace == ndJsonDeserialize("trace.ndjson")
VARIABLE l
E == Trace[l]
TInit == l = 0 /\ running = [w \in Workers |-> Idle] /\ done = [w \in Workers |-> 0] /\ fresh = 0 /\ seen = {}
TNext == /\ UNCHANGED vars
         /\ \/ l = 0 /\ l' \in {-k : k \in {j \in 1..Len(Trace) : j % ChunkSize = 1 \/ ChunkSize = 1}}   \* enter a chunk (no check yet,
            \/ l < 0 /\ l' = -l                                  \* so that chunk heads are checked by different workers)
            \/ l > 0 /\ l < Len(Trace) /\ l % ChunkSize # 0 /\ l' = l + 1
TSpec == TInit /\ [][TNext]_<<l, running, done, fresh, seen>>
PropC17(e) == e.ev = "conc" =>
   /\ e.outcome = "returned"                                 \* no data race report, no fatal error
   /\ \A i \in 1..Len(e.calls) : Applicable(e.calls[i].op, e.calls[i].obj)      \* a configuration of the model
   /\ e.got = e.solo                                          \* every call returned the result it returns alone
   /\ ("after" \in DOMAIN e => e.after = e.solo)              \* ... and so do the same calls on the shared objects afterwards
InvC17 == l > 0 => PropC17(E)
=====================================================================
