SPECIFICATION TSpec
CONSTANTS
  ChunkSize = 16
  AsIsD1 = FALSE
  AsIsD2 = FALSE
  AsIsD3 = FALSE
  AsIsD4 = FALSE
INVARIANTS @INVS@
CHECK_DEADLOCK FALSE
