SPECIFICATION PPSpec
CONSTANTS
  MaxStr = 5
  AsIsD10 = FALSE
  AsIsD12 = FALSE
INVARIANT RoundTrip
CHECK_DEADLOCK FALSE
