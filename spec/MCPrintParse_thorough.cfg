SPECIFICATION PPSpec
CONSTANTS
  MaxStr = 5
  AsIsD10 = FALSE
  AsIsD12 = FALSE
INVARIANTS RoundTrip VarsPrinted EmitCase
CHECK_DEADLOCK FALSE
