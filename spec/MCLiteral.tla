---------------------------- MODULE MCLiteral ----------------------------
(* C05 at model level: what an integer literal denotes, stated a second     *)
(* time and declaratively - from the BITS of the value, not through the     *)
(* digit-by-digit conversion the parser model shares with strconv - and     *)
(* compared with the parser model on every spelling of a bounded scope.     *)
(*                                                                          *)
(* A magnitude is a bit string (most significant first, no leading zero).   *)
(* Its spellings: base 2 / 8 / 16 digits are groups of 1 / 3 / 4 bits       *)
(* behind 0b 0B / 0o 0O 0 / 0x 0X, hex letters in either case, any number   *)
(* of leading zeros, an optional sign; decimal spellings come from TLC's    *)
(* own integers.  Its value as a Num (little-endian bytes) is groups of 8   *)
(* bits.  What an item of type T must hold for it (Denotes):                *)
(*   U<w>: accepted iff unsigned and below 2^w (fewer than w+1 bits);       *)
(*   I<w>: accepted iff it fits two's complement of w bits;                 *)
(*   B   : accepted iff in 0..255;   A (character code): iff in 0..127.     *)
(* The invariant Agrees says the parser model accepts exactly those and     *)
(* stores exactly that value; EmitCase hands every case to the Go replayer  *)
(* (lit-replay), which runs the real sml.Parse on the text (PropC05x).      *)
EXTENDS SmlNorm, TLC, Json
CONSTANTS Widths, Zeros, Positions

\* ------------------------------------------------------------------ bits
Bit(bs, j) == IF j < Len(bs) THEN bs[Len(bs) - j] ELSE 0          \* the bit of weight 2^j
Group(bs, k, p) == LET RECURSIVE S(_)
                       S(j) == IF j = k THEN 0 ELSE Bit(bs, k * p + j) * (2 ^ j) + S(j + 1)
                   IN S(0)                                        \* digit number p (0 = least) in base 2^k
NDigits(bs, k) == (Len(bs) + k - 1) \div k
DigitsMSF(bs, k) == [i \in 1..NDigits(bs, k) |-> Group(bs, k, NDigits(bs, k) - i)]
BitsToNum(bs) == TrimZ([i \in 1..NDigits(bs, 8) |-> Group(bs, 8, i - 1)])
IsZero(bs) == \A i \in 1..Len(bs) : bs[i] = 0
Below2(bs, w) == IsZero(bs) \/ Len(bs) <= w                        \* value < 2^w
AtMost2(bs, w) == Below2(bs, w) \/ (Len(bs) = w + 1 /\ \A i \in 2..Len(bs) : bs[i] = 0)   \* value <= 2^w

Ones(n) == [i \in 1..n |-> 1]
OneZeros(n) == [i \in 1..(n + 1) |-> IF i = 1 THEN 1 ELSE 0]        \* 2^n
OneZerosOne(n) == [i \in 1..(n + 1) |-> IF i = 1 \/ i = n + 1 THEN 1 ELSE 0]   \* 2^n + 1
Alt(n) == [i \in 1..n |-> i % 2]                                    \* 1010..
Letters == <<1,0,1,0, 1,0,1,1, 1,1,0,0, 1,1,0,1, 1,1,1,0, 1,1,1,1>>  \* 0xABCDEF
Patterns == {<<0>>, <<1>>, <<1,1,1>>, Letters}
            \cup UNION {{Ones(w - 1), OneZeros(w - 1), OneZerosOne(w - 1), Ones(w), OneZeros(w), OneZerosOne(w), Alt(w), Alt(w - 1)} : w \in Widths}

\* ------------------------------------------------------------------ spellings
DigitChar(v, upper) == IF v < 10 THEN 48 + v ELSE IF upper THEN 55 + v ELSE 87 + v
BasePrefixes == { [k |-> 1, p |-> <<48, 98>>], [k |-> 1, p |-> <<48, 66>>],
              [k |-> 3, p |-> <<48, 111>>], [k |-> 3, p |-> <<48, 79>>], [k |-> 3, p |-> <<48>>],
              [k |-> 4, p |-> <<48, 120>>], [k |-> 4, p |-> <<48, 88>>] }
Signs == {<<>>, <<43>>, <<45>>}
Spell(bs, pre, upper, z, sg) ==
   sg \o pre.p \o [i \in 1..z |-> 48] \o [i \in 1..NDigits(bs, pre.k) |-> DigitChar(DigitsMSF(bs, pre.k)[i], upper)]
\* decimal spellings of TLC's own integers
Decimals == {0, 1, 7, 9, 10, 127, 128, 129, 255, 256, 32767, 32768, 32769, 65535, 65536, 2147483647}
RECURSIVE NatBits(_)
NatBits(n) == IF n < 2 THEN <<n>> ELSE Append(NatBits(n \div 2), n % 2)

\* ------------------------------------------------------------------ what the item must hold
Types == {"U1", "U2", "U4", "U8", "I1", "I2", "I4", "I8", "B", "A"}
TyChars(T) == CASE T = "B" -> <<66>> [] T = "A" -> <<65>> [] OTHER -> <<(IF T \in {"U1","U2","U4","U8"} THEN 85 ELSE 73), 48 + (CASE T \in {"U1","I1"} -> 1 [] T \in {"U2","I2"} -> 2 [] T \in {"U4","I4"} -> 4 [] OTHER -> 8)>>
WBits(T) == CASE T \in {"U1","I1"} -> 8 [] T \in {"U2","I2"} -> 16 [] T \in {"U4","I4"} -> 32 [] OTHER -> 64
Accepts(T, bs, sg) ==
   CASE T \in {"U1","U2","U4","U8"} -> sg = <<>> /\ Below2(bs, WBits(T))
     [] T \in {"I1","I2","I4","I8"} -> IF sg = <<45>> THEN AtMost2(bs, WBits(T) - 1) ELSE Below2(bs, WBits(T) - 1)
     [] T = "B" -> IF sg = <<45>> THEN IsZero(bs) ELSE Below2(bs, 8)
     [] T = "A" -> sg = <<>> /\ Below2(bs, 7)
Value(T, bs, sg) ==
   CASE T = "B" -> [b |-> IF IsZero(bs) THEN 0 ELSE BitsToNum(bs)[1]]
     [] OTHER -> [neg |-> sg = <<45>> /\ ~IsZero(bs), mag |-> BitsToNum(bs)]
First(T) == IF T = "B" THEN [b |-> 1] ELSE [neg |-> FALSE, mag |-> <<1>>]
Item(T, bs, sg, pos) ==
   IF T = "A" THEN [f |-> "A", s |-> (IF pos = 2 THEN <<1>> ELSE <<>>) \o <<IF IsZero(bs) THEN 0 ELSE BitsToNum(bs)[1]>>]
   ELSE [f |-> T, e |-> (IF pos = 2 THEN <<First(T)>> ELSE <<>>) \o <<Value(T, bs, sg)>>]
\* S1F1 W H->E <T [1] lit>.
Text(T, lit, pos) == <<83,49,70,49,32,87,32,72,45,62,69,10,60>> \o TyChars(T) \o <<32>> \o (IF pos = 2 THEN <<49, 32>> ELSE <<>>) \o lit \o <<62, 10, 46>>

Pow2Any(w) == FromDigits(2, OneZeros(w), <<>>)
VARIABLES cs, sel
NoCase == [k |-> "none"]
PatSeq == SetToSeq(Patterns)
Init == cs = NoCase /\ sel \in 1..(Len(PatSeq) + 1)
Case(T, bs, lit, sg, pos) == [k |-> "case", ty |-> T, text |-> Text(T, lit, pos), ok |-> Accepts(T, bs, sg), item |-> Item(T, bs, sg, pos)]
Next == /\ cs = NoCase /\ UNCHANGED sel
        /\ \/ sel <= Len(PatSeq) /\ \E T \in Types, pre \in BasePrefixes, up \in BOOLEAN, z \in Zeros, sg \in Signs, pos \in Positions :
                 /\ up => pre.k = 4                                       \* letter case matters for hex digits only
                 /\ cs' = Case(T, PatSeq[sel], Spell(PatSeq[sel], pre, up, z, sg), sg, pos)
           \/ sel = Len(PatSeq) + 1 /\ \E T \in Types, n \in Decimals, sg \in Signs, pos \in Positions :
                 cs' = Case(T, NatBits(n), sg \o DecChars(n), sg, pos)
LitSpec == Init /\ [][Next]_<<cs, sel>>

Agrees == cs = NoCase \/
   LET r == P(cs.text, <<>>)!ParseText IN
   /\ r.outcome = "returned"
   /\ (r.errs = <<>>) = cs.ok
   /\ cs.ok => /\ Len(r.msgs) = 1 /\ r.warns = <<>>
               /\ NormMsgM(r.msgs[1], <<>>).item = cs.item
               /\ r.msgs[1].s = 1 /\ r.msgs[1].f = 1 /\ r.msgs[1].w = "true"
   /\ ~cs.ok => r.msgs = <<>>
\* the two statements of "below 2^w" agree (bits against Num's comparison), and grouping by 8 is FromDigits
Lemmas == cs = NoCase \/ (sel <= Len(PatSeq) =>
   LET bs == PatSeq[sel] IN
   /\ \A w \in {7, 8, 15, 16, 31, 32, 63, 64} : Below2(bs, w) = (Cmp(BitsToNum(bs), Pow2Any(w)) < 0)
   /\ BitsToNum(bs) = FromDigits(2, bs, <<>>))
EmitCase == cs = NoCase \/ PrintT("CASE " \o ToJson([text |-> cs.text, ok |-> cs.ok, item |-> cs.item, ty |-> cs.ty]))
=====================================================================
