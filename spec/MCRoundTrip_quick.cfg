SPECIFICATION RTSpec
CONSTANTS
  MaxVals = 2
  MaxKids = 2
  EmitEvery = 13
  AsIsD1 = FALSE
  AsIsD2 = FALSE
  AsIsD3 = FALSE
  AsIsD4 = FALSE
INVARIANTS RoundTrip GrammarAgrees InvalidRefused Layout ItemsLaidOut EmitCase
CHECK_DEADLOCK FALSE
