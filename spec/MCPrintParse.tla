---------------------------- MODULE MCPrintParse ----------------------------
(* C04 at model level: for every message of a bounded scope the parser      *)
(* model, run on what the printer model writes, returns exactly that        *)
(* message - one message, no error, no warning.  This is the design-level   *)
(* statement that the printed form is unambiguous; the trace checks bind    *)
(* both models to the code.                                                 *)
(* Scope: ASCII literals over {a, blank, ", \, /, <, ., 0x00, 0x1F, 0x7F}   *)
(* up to length MaxStr, numeric leaves with boundary values, binary,        *)
(* boolean, ASCII variables with all four bound forms, array and list       *)
(* variables, numbered ellipses, lists nested to depth 2; headers with all  *)
(* wait-bit states, directions and adversarial names.                       *)
EXTENDS SmlNorm, Ellipsis, TLC, Json
CONSTANT MaxStr
D(ds) == [neg |-> FALSE, dec |-> ds]
N(ds) == [neg |-> TRUE, dec |-> ds]
Chars == {97, 32, 34, 92, 47, 60, 46, 0, 31, 127}
Strs == UNION {[1..k -> Chars] : k \in 0..MaxStr}
AsciiLits == {[f |-> "A", s |-> s] : s \in Strs}
Leaves == { [f |-> "U1", e |-> <<D(<<0>>), D(<<2, 5, 5>>)>>], [f |-> "U8", e |-> <<D(<<1,8,4,4,6,7,4,4,0,7,3,7,0,9,5,5,1,6,1,5>>)>>],
            [f |-> "I1", e |-> <<N(<<1, 2, 8>>), D(<<1, 2, 7>>)>>], [f |-> "I8", e |-> <<N(<<9,2,2,3,3,7,2,0,3,6,8,5,4,7,7,5,8,0,8>>)>>],
            [f |-> "I2", e |-> <<>>], [f |-> "B", e |-> <<[b |-> 0], [b |-> 255]>>], [f |-> "BOOLEAN", e |-> <<[t |-> TRUE], [t |-> FALSE]>>],
            [f |-> "U2", e |-> <<[var |-> <<120>>], D(<<7>>)>>],                                     \* <U2 x 7>
            [f |-> "A", var |-> <<115>>, lo |-> D(<<0>>), hi |-> N(<<1>>)],                          \* <A s>
            [f |-> "A", var |-> <<116, 49>>, lo |-> D(<<2>>), hi |-> D(<<2>>)],                      \* <A[2] t1>
            [f |-> "A", var |-> <<117>>, lo |-> D(<<1>>), hi |-> N(<<1>>)],                          \* <A[1..] u>
            [f |-> "A", var |-> <<119>>, lo |-> D(<<0>>), hi |-> D(<<5>>)],                          \* <A[0..5] w>
            [var |-> <<118>>] }                                                                       \* list variable v
L(es) == [f |-> "L", e |-> es]
Inj(k, S) == {s \in [1..k -> S] : \A i, j \in 1..k : i # j => s[i] # s[j]}
WithEll(es) == {es} \cup {InsertAt(es, p, [ell |-> 0]) : p \in 2..(Len(es) + 1)}
Names == {<<>>, <<110>>, <<120, 46>>, <<97, 60, 98>>, <<97, 34, 113>>, <<83>>, <<37, 115>>}
Dirs == {"H->E", "H<-E", "H<->E"}
MHdr(s, f, w, d, nm) == [name |-> nm, s |-> s, f |-> f, w |-> w, dir |-> d]
Headers == {MHdr(s, f, w, d, nm) : s \in {0, 127}, f \in {1, 254}, w \in {"false", "optional"}, d \in Dirs, nm \in Names}
           \cup {MHdr(1, 255, "true", d, nm) : d \in Dirs, nm \in Names}
VARIABLES msg, sel
NoMsg == [f |-> "nomsg"]
\* the scope is cut into selectors so that TLC's workers share it
LeafSeq == SetToSeq(Leaves)
CharSeq == SetToSeq(Chars)
Init == msg = NoMsg /\ sel \in ({[k |-> "ascii", i |-> i] : i \in 0..Len(CharSeq)} \cup {[k |-> "hdr", i |-> 0]}
                                \cup {[k |-> "list1", i |-> i] : i \in 0..Len(LeafSeq)} \cup {[k |-> "list2", i |-> i] : i \in 1..Len(LeafSeq)})
NumberE(t) == Renum(t, 0, FALSE).t
Next == /\ msg = NoMsg /\ UNCHANGED sel
        /\ \/ sel.k = "ascii" /\ \E a \in {x \in AsciiLits : IF sel.i = 0 THEN x.s = <<>> ELSE (x.s # <<>> /\ x.s[1] = CharSeq[sel.i])}, k \in 0..1 :
                 msg' = MHdr(1, 1, "true", "H->E", <<110>>) @@ [item |-> IF k = 0 THEN a ELSE L(<<a, [f |-> "B", e |-> <<>>]>>)]
           \/ sel.k = "hdr" /\ \E h \in Headers, it \in {[f |-> "none"], [f |-> "U1", e |-> <<D(<<5>>)>>]} : msg' = h @@ [item |-> it]
           \/ sel.k = "list1" /\ \E k \in 0..2 : \E es \in {x \in Inj(k, Leaves) : IF sel.i = 0 THEN x = <<>> ELSE (x # <<>> /\ x[1] = LeafSeq[sel.i])} : \E ws \in WithEll(es) :
                 msg' = MHdr(6, 11, "optional", "H<-E", <<110>>) @@ [item |-> NumberE(L(ws))]
           \/ sel.k = "list2" /\ \E a \in {LeafSeq[sel.i]}, b \in Leaves, c \in Leaves :
                 /\ a # b /\ b # c /\ a # c
                 /\ \E inner \in WithEll(<<a, b>>), outer \in {0, 1, 2} :
                      msg' = MHdr(1, 2, "false", "H<->E", <<>>) @@
                             [item |-> NumberE(L(IF outer = 0 THEN <<L(inner), c>>
                                                ELSE IF outer = 1 THEN <<L(inner), [ell |-> 0], c>>
                                                ELSE <<c, L(inner), [ell |-> 0]>>))]
PPSpec == Init /\ [][Next]_<<msg, sel>>
RoundTrip == msg # NoMsg =>
   LET text == PrintMsg(msg)
       r == P(text, <<>>)!ParseText IN
   /\ r.outcome = "returned" /\ r.errs = <<>> /\ r.warns = <<>>
   /\ Len(r.msgs) = 1
   /\ NormMsgM(r.msgs[1], <<>>) = NormMsgJ(msg)
\* C16 at model level: the variable list of the item is exactly the names that appear in the printed form, in that order
\* (the Variable and Ellipsis tokens the lexer model finds in the printer model's text), no name twice, and the item is
\* encodable iff there is none; the reported size is the number of elements printed
PrintedNames(text) == LET ts == SelectSeq(Lx(text)!Tokens, LAMBDA x : x.t \in {"Variable", "Ellipsis"}) IN [i \in 1..Len(ts) |-> ts[i].v]
VarsPrinted == (msg # NoMsg /\ msg.item.f # "none") =>
   LET names == PrintedNames(PrintMsg(msg)) IN
   \* (a repeat marker is printed without its number: ...[2] appears as ... - position and order are what is compared)
   /\ [i \in 1..Len(Vars(msg.item)) |-> IF IsEllipsisName(Vars(msg.item)[i]) THEN <<46, 46, 46>> ELSE Vars(msg.item)[i]]
        = [i \in 1..Len(names) |-> IF IsEllipsisName(names[i]) THEN <<46, 46, 46>> ELSE names[i]]
   /\ NoDup(Vars(msg.item))
   /\ Encodable(msg.item) = (names = <<>>)
   /\ (ItemBytes(msg.item) # <<>>) = (names = <<>>)
\* TLC -> Go: every message of the scope with the text the printer model writes for it
EmitCase == msg = NoMsg \/ PrintT("CASE " \o ToJson([msg |-> msg, text |-> PrintMsg(msg)]))
\* printing the parsed message gives the same text again (fixed point), with the parsed message mapped back to the printer's shape
=====================================================================
