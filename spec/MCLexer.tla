---------------------------- MODULE MCLexer ----------------------------
(* The SML lexer machine on every input of length <= N over a 25-symbol     *)
(* class alphabet, from both start states, one stateFn invocation per step: *)
(*  - every step strictly decreases a termination measure (C06: no hang)    *)
(*  - at most one token per step (the channel has capacity 2)               *)
(*  - tokens are consecutive, inside the input, and their line / column     *)
(*    positions lie inside the text (C06: positions)                        *)
(*  - the machine terminates                                                *)
EXTENDS Integers, Sequences, TLC
CONSTANTS N, AsIsD10, AsIsD12
\* S 1 F W [ ] H - > < E . / " space \n \r a L T 0 x + e-acute(letter) U+2003(space) invalid-byte
Alpha == {83, 49, 70, 87, 91, 93, 72, 45, 62, 60, 69, 46, 47, 34, 32, 10, 13, 97, 76, 84, 48, 120, 43, 1202169, 1301131, 1105255}
VARIABLES text, st, phase
vars == <<text, st, phase>>
Lx(t) == INSTANCE SmlLexer WITH input <- t
Init == text = <<>> /\ phase = "grow" /\ st = Lx(<<>>)!St0
Grow == phase = "grow" /\ Len(text) < N /\ \E c \in Alpha : text' = Append(text, c) /\ UNCHANGED <<st, phase>>
Start == phase = "grow" /\ \E s \in {"header", "text"} :
            /\ phase' = "run" /\ UNCHANGED text
            /\ st' = IF s = "header" THEN Lx(text)!St0 ELSE Lx(text)!St0Text
RunStep == phase = "run" /\ st.state # "done" /\ st' = Lx(text)!Step(st) /\ UNCHANGED <<text, phase>>
Next == Grow \/ Start \/ RunStep
Spec == Init /\ [][Next]_vars /\ WF_vars(RunStep)
Measure(s) == 3 * (Len(text) - s.pos) + (CASE s.state \in {"header", "text"} -> 2 [] s.state = "done" -> 0 [] OTHER -> 1)
Progress == [][phase = "run" /\ phase' = "run" => Measure(st') < Measure(st)]_vars
OneTokenPerStep == [][phase = "run" /\ phase' = "run" => Len(st'.out) <= Len(st.out) + 1]_vars
Terminates == (phase = "run") ~> (st.state = "done")
TokensWellPlaced == phase = "run" =>
   /\ st.pos >= 0 /\ st.pos <= Len(text) /\ st.start <= st.pos
   /\ \A i \in 1..Len(st.out) : LET t == st.out[i] IN
        /\ 0 <= t.s /\ t.s <= t.e /\ t.e <= Len(text)
        /\ (i > 1 => st.out[i - 1].e <= t.s)                                       \* consecutive, never overlapping
        /\ LET lc == Lx(text)!LC(t.s) IN lc[1] >= 1 /\ lc[1] <= Lx(text)!Lines /\ lc[2] >= 1 /\ lc[2] <= Len(text) + 1
        /\ (t.typ \notin {"EOF", "Error", "Comment"} => t.e > t.s)                 \* a real token is never empty
\* the run of operators used by the trace specifications is this machine
OperatorForm == (phase = "run" /\ st.state = "done" /\ st.steps[1].state = "header") => st = Lx(text)!Run
=====================================================================
