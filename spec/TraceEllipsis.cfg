SPECIFICATION TSpec
CONSTANTS
  ChunkSize = 16
INVARIANTS @INVS@
CHECK_DEADLOCK FALSE
