SPECIFICATION Spec
CONSTANTS
  MaxSys = 3
  MaxChan = 2
  Depth = 0
  Rich = TRUE
  StartSelected = FALSE
VIEW View
INVARIANTS TypeOK BothOrNeitherConnected NothingInFlightWhenDown Buildable WireRoundTrip S9ToHostOnly MheadIsAHeader RepliesPaired SysUnique OneOpenPerKind
PROPERTY DeliverOnlySelected
CHECK_DEADLOCK FALSE
