---------------------------- MODULE MCFill ----------------------------
(* C09 on the specification: substitution composes.  For every ellipsis-    *)
(* free template of a bounded scope, every assignment of variable-free      *)
(* values (in and out of domain, unmentioned variables, unknown keys) and   *)
(* every way of splitting the assignment into two successive fills:         *)
(*  - filling in two steps = filling once                                   *)
(*  - the variables left are the unmentioned ones, in their original order  *)
(*  - an out-of-domain value is refused at whichever step it arrives        *)
(*  - once nothing is left the item encodes, and its values are in domain   *)
EXTENDS Items, TLC
Name(c) == <<c>>
I(n) == [neg |-> FALSE, dec |-> n]
Leaves == { [var |-> Name(118)],                                                             \* list-level variable v
            [f |-> "U1", e |-> <<[var |-> Name(110)], I(<<7>>)>>],                           \* <U1 n 7>
            [f |-> "I2", e |-> <<[var |-> Name(112)], I(<<5>>), [var |-> Name(113)]>>],      \* <I2 p 5 q>
            [f |-> "A", var |-> Name(97), lo |-> I(<<1>>), hi |-> I(<<2>>)],                  \* <A[1..2] a>
            [f |-> "BOOLEAN", e |-> <<[t |-> TRUE]>>] }
L(es) == [f |-> "L", e |-> es]
Inj(k, S) == {s \in [1..k -> S] : \A i, j \in 1..k : i # j => s[i] # s[j]}
Lists0 == UNION {Inj(k, Leaves) : k \in 0..2}
TopElems == Leaves \cup {L(x) : x \in Lists0}
\* candidate fill-in values per variable (NOVAL = not mentioned)
NOVAL == [none |-> TRUE]
Cand(n) == CASE n = Name(118) -> {NOVAL, [f |-> "B", e |-> <<[b |-> 3]>>], L(<<>>)}
             [] n = Name(110) -> {NOVAL, I(<<5>>), I(<<3, 0, 0>>)}                            \* 300 does not fit U1
             [] n = Name(112) -> {NOVAL, I(<<1>>), [neg |-> TRUE, dec |-> <<4, 0, 0, 0, 0>>]}  \* -40000 does not fit I2
             [] n = Name(113) -> {NOVAL, I(<<3, 2, 7, 6, 7>>)}
             [] n = Name(97)  -> {NOVAL, [s |-> <<120, 121>>], [s |-> <<>>], [s |-> <<120, 121, 122>>]}   \* lengths 2, 0, 3 against [1..2]
VARIABLES tmpl, sigma
Init == /\ \E k \in 1..2 : \E es \in [1..k -> TopElems] : tmpl = L(es)
        /\ sigma = <<>>
Names == {Name(118), Name(110), Name(112), Name(113), Name(97)}
Next == /\ sigma = <<>> /\ NoDup(Vars(tmpl)) /\ UNCHANGED tmpl
        /\ \E a \in Cand(Name(118)), b \in Cand(Name(110)), c \in Cand(Name(112)), d \in Cand(Name(113)), g \in Cand(Name(97)) :
              LET f == (Name(118) :> a) @@ (Name(110) :> b) @@ (Name(112) :> c) @@ (Name(113) :> d) @@ (Name(97) :> g) IN
              sigma' = <<[k |-> <<122, 122>>, v |-> I(<<1>>)]>> \o        \* an unknown key is always present
                       SetToSeq({[k |-> n, v |-> f[n]] : n \in {m \in Names : f[m] # NOVAL}})
Spec == Init /\ [][Next]_<<tmpl, sigma>>
Splits == {m \in [1..Len(sigma) -> {1, 2}] : TRUE}
Part(m, k) == SelectSeq([i \in 1..Len(sigma) |-> IF m[i] = k THEN sigma[i] ELSE [k |-> <<>>, v |-> NOVAL]], LAMBDA x : x.k # <<>>)
Composes == sigma # <<>> =>
   \A m \in Splits :
      LET s1 == Part(m, 1)  s2 == Part(m, 2)  mid == Subst(tmpl, s1) IN
      IF FillOK(tmpl, sigma, TRUE)
      THEN /\ FillOK(tmpl, s1, TRUE) /\ FillOK(mid, s2, TRUE)
           /\ Subst(mid, s2) = Subst(tmpl, sigma)
      ELSE ~FillOK(tmpl, s1, TRUE) \/ ~FillOK(mid, s2, TRUE)
VarsLaw == (sigma # <<>> /\ FillOK(tmpl, sigma, TRUE)) =>
   LET r == Subst(tmpl, sigma) IN
   /\ Vars(r) = RemainingVars(tmpl, sigma) /\ NoDup(Vars(r))
   /\ (Vars(r) = <<>> => (ValuesOK(r) /\ ItemBytes(r) # <<>>))
   /\ (Vars(r) # <<>> => ItemBytes(r) = <<>>)
=====================================================================
