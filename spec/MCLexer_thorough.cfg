SPECIFICATION Spec
CONSTANTS
  N = 4
  AsIsD10 = FALSE
  AsIsD12 = FALSE
INVARIANTS TokensWellPlaced OperatorForm
PROPERTIES Progress OneTokenPerStep
CHECK_DEADLOCK FALSE
