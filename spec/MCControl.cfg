SPECIFICATION Spec
INVARIANTS TypeTotal Constructors EmitCases
CHECK_DEADLOCK FALSE
