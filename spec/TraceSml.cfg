SPECIFICATION TSpec
CONSTANTS
  ChunkSize = 16
  AsIsD10 = FALSE
  AsIsD12 = FALSE
INVARIANTS @INVS@
CHECK_DEADLOCK FALSE
