---------------------------- MODULE TraceSml ----------------------------
(* Trace validation of the SML front end against SmlLexer / SmlParser /     *)
(* SmlPrinter: events recorded from the real sml.Parse, the real lexer      *)
(* (verif hook) and String().                                               *)
(*   C04 print -> parse round trip        C05 literals denote their values  *)
(*   C06 total, all-or-nothing, positions C08 layout invariance             *)
(*   C15 declared sizes                   C19 messages parsed independently *)
EXTENDS SmlNorm, Json, TLC
CONSTANTS ChunkSize
Trace == ndJsonDeserialize("trace.ndjson")
VARIABLE l
E == Trace[l]
TInit == l = 0
TNext == \/ l = 0 /\ l' \in {-k : k \in {j \in 1..Len(Trace) : j % ChunkSize = 1 \/ ChunkSize = 1}}   \* enter a chunk (no check yet,
         \/ l < 0 /\ l' = -l                                  \* so that chunk heads are checked by different workers)
         \/ l > 0 /\ l < Len(Trace) /\ l % ChunkSize # 0 /\ l' = l + 1
TSpec == TInit /\ [][TNext]_l

Model(e) == LET r == P(e.text, e.floats)!ParseText IN
            [outcome |-> r.outcome, msgs |-> [i \in 1..Len(r.msgs) |-> NormMsgM(r.msgs[i], e.floats)], errs |-> r.errs, warns |-> r.warns]
Pos(ds) == [i \in 1..Len(ds) |-> <<ds[i].ln, ds[i].col>>]
Real(e) == [outcome |-> e.outcome, msgs |-> [i \in 1..Len(e.msgs) |-> NormMsgJ(e.msgs[i])], errs |-> Pos(e.errs), warns |-> Pos(e.warns)]

\* ------------------------------------------------------------------ text geometry
RECURSIVE LineLens(_, _, _, _)
\* lengths (in chars = runes) of the lines of a text
LineLens(t, i, cur, acc) == IF i > Len(t) THEN Append(acc, cur)
                            ELSE IF t[i] = 10 THEN LineLens(t, i + 1, 0, Append(acc, cur))
                            ELSE LineLens(t, i + 1, cur + 1, acc)
InsideText(t, ln, col) == LET ls == LineLens(t, 1, 0, <<>>) IN ln >= 1 /\ ln <= Len(ls) /\ col >= 1 /\ col <= ls[ln] + 1

\* ------------------------------------------------------------------ C06
PropC06(e) == e.ev = "parse" =>
  /\ e.outcome = "returned"                                             \* no panic escapes (abort / hang: see the worker)
  /\ e.errs # <<>> => e.msgs = <<>>                                      \* all or nothing
  /\ \A i \in 1..Len(e.errs) : InsideText(e.text, e.errs[i].ln, e.errs[i].col)     \* "Ln x, Col y: text" inside the input
  /\ \A i \in 1..Len(e.warns) : InsideText(e.text, e.warns[i].ln, e.warns[i].col)
  /\ e.errs = <<>> => LET m == Model(e) IN m.errs = <<>> /\ Real(e).msgs = m.msgs   \* every message of the input, in order

\* ------------------------------------------------------------------ C05 / C15 (the grammar as oracle)
PropC05(e) == e.ev = "parse" =>
  LET m == Model(e) IN
  /\ e.outcome = "returned"
  /\ (e.errs = <<>>) = (m.errs = <<>>)            \* an unrepresentable literal is an error, a representable one is not
  /\ Real(e).msgs = m.msgs                         \* exactly the denoted values, in order, in items of the written types
  /\ e.errs # <<>> => e.msgs = <<>>
\* TLC -> Go: a spelling MCLiteral enumerated; `want` says, from the bits of the value, whether an item of the written type
\* takes it and what the item then holds
PropC05x(e) == (e.ev = "parse" /\ "want" \in DOMAIN e) =>
  /\ e.outcome = "returned"
  /\ e.text = e.want.text
  /\ (e.errs = <<>>) = e.want.ok
  /\ e.want.ok => Len(e.msgs) = 1 /\ e.warns = <<>> /\ Real(e).msgs[1].item = e.want.item
  /\ ~e.want.ok => e.msgs = <<>>
\* TLC -> Go: a sized literal MCSizes enumerated, with the verdict stated on the numbers and the place of the declaration
PropC15x(e) == (e.ev = "parse" /\ "want" \in DOMAIN e /\ "at" \in DOMAIN e.want) =>
  /\ e.outcome = "returned" /\ e.text = e.want.text
  /\ (e.errs = <<>>) = e.want.ok
  /\ e.want.ok => Len(e.msgs) = 1 /\ (LET it == Real(e).msgs[1].item IN (IF it.f = "A" THEN Len(it.s) ELSE Len(it.e)) = e.want.count)
  /\ ~e.want.ok => e.msgs = <<>> /\ Pos(e.errs) = <<e.want.at>>
PropC15(e) == PropC05(e) /\ (e.ev = "parse" => Real(e).errs = Model(e).errs)      \* ... reported at the declaration

\* ------------------------------------------------------------------ model agreement (drift only)
AgreeParse(e) == e.ev = "parse" => Real(e) = Model(e)
ModelToks(e) == IF e.textstate THEN Lx(e.text)!TokensOf(Lx(e.text)!RunFrom(Lx(e.text)!St0Text)) ELSE Lx(e.text)!Tokens
ModelSteps(e) == IF e.textstate THEN Lx(e.text)!StepsOf(Lx(e.text)!RunFrom(Lx(e.text)!St0Text)) ELSE Lx(e.text)!StepsOf(Lx(e.text)!Run)
AgreeLex(e) == e.ev = "lex" => e.toks = ModelToks(e) /\ e.steps = ModelSteps(e)

\* ------------------------------------------------------------------ C04: print -> parse round trip
PropC04(e) == e.ev = "pp" =>
  LET r == e.re IN
  /\ r.text = e.string                                   \* what is parsed is what String() printed
  /\ r.outcome = "returned" /\ r.errs = <<>> /\ r.warns = <<>>
  /\ Len(r.msgs) = 1                                      \* exactly one message, no errors, no warnings
  /\ NormMsgJ(r.msgs[1]) = NormMsgJ(e.orig)               \* same header fields and item tree
  /\ e.revars = e.vars /\ e.restring = e.string          \* same variables; the printed form is a fixed point
  /\ e.bytes # <<>> /\ e.rebytes = e.bytes               \* and, once completed, the same bytes
\* TLC -> Go: the message TLC enumerated was built as given, and the real printer writes what the printer model writes
PropC04x(e) == (e.ev = "pp" /\ "want" \in DOMAIN e) =>
   /\ NormMsgJ(e.orig) = NormMsgJ(e.want.msg)
   /\ e.string = e.want.text
\* C16, TLC -> Go: the real Variables() of the message built from TLC's description is the specification's variable list of it,
\* and that list is what the real printed text shows, name by name (a repeat marker is printed without its number)
PropC16x(e) == (e.ev = "pp" /\ "want" \in DOMAIN e /\ e.want.msg.item.f # "none") =>
   LET vs == Vars(e.want.msg.item)
       names == LET ts == SelectSeq(Lx(e.string)!Tokens, LAMBDA x : x.t \in {"Variable", "Ellipsis"}) IN [i \in 1..Len(ts) |-> ts[i].v]
       U(s) == [i \in 1..Len(s) |-> IF IsEllipsisName(s[i]) THEN <<46, 46, 46>> ELSE s[i]] IN
   /\ e.vars = vs /\ NoDup(e.vars)
   /\ U(e.vars) = U(names)
AgreeC04(e) == e.ev = "pp" => e.string = PrintMsg(e.orig) /\ Real(e.re) = Model(e.re)

\* ------------------------------------------------------------------ C08: layout invariance
\* "the same tokens in another layout" is defined by the lexer model: equal token types and values
\* (numbers up to letter case), comments dropped
UpAll(cs) == [i \in 1..Len(cs) |-> IF cs[i] >= 97 /\ cs[i] <= 122 THEN cs[i] - 32 ELSE cs[i]]
ToksOf(t) == SelectSeq(Lx(t)!Tokens, LAMBDA x : x.t # "Comment")
SameTokens(ta, tb) == Len(ta) = Len(tb) /\ \A j \in 1..Len(ta) :
     ta[j].t = tb[j].t /\ (IF ta[j].t = "Number" THEN UpAll(ta[j].v) = UpAll(tb[j].v) ELSE ta[j].v = tb[j].v)
\* a diagnostic of run 1 and its partner in run 2 sit at the same token
Shifted(da, db, ta, tb) == \E j \in 1..Len(ta) : ta[j].l = da.ln /\ ta[j].c = da.col /\ tb[j].l = db.ln /\ tb[j].c = db.col
DiagsCorrespond(xa, xb, ta, tb) == Len(xa) = Len(xb) /\ \A i \in 1..Len(xa) :
     UpAll(xa[i].text) = UpAll(xb[i].text) /\ Shifted(xa[i], xb[i], ta, tb)
\* textual removal of //... up to the end of the line (used only where no quoted string contains //)
RECURSIVE StripC(_, _, _)
StripC(t, i, inC) == IF i > Len(t) THEN <<>>
                     ELSE IF inC THEN (IF t[i] = 10 THEN <<10>> \o StripC(t, i + 1, FALSE) ELSE StripC(t, i + 1, TRUE))
                     ELSE IF t[i] = 47 /\ i < Len(t) /\ t[i + 1] = 47 THEN StripC(t, i + 2, TRUE)
                     ELSE <<t[i]>> \o StripC(t, i + 1, FALSE)
NoBlanks(t) == SelectSeq(t, LAMBDA c : c \notin {32, 9, 13})
LayoutPair(e) == LET ta == ToksOf(e.r1.text)  tb == ToksOf(e.r2.text) IN
                 SameTokens(ta, tb) \/ (e.family = "comment-in-size" /\ NoBlanks(StripC(e.r2.text, 1, FALSE)) = NoBlanks(e.r1.text))
PropC08(e) == e.ev = "layout" =>
  LET a == e.r1  b == e.r2  ta == ToksOf(a.text)  tb == ToksOf(b.text) IN
  ~LayoutPair(e) \/
     /\ a.outcome = "returned" /\ b.outcome = "returned"
     /\ Real(a).msgs = Real(b).msgs                                  \* the parsed messages are identical
     /\ DiagsCorrespond(a.errs, b.errs, ta, tb)                      \* diagnostics keep their text and move with their token
     /\ DiagsCorrespond(a.warns, b.warns, ta, tb)
AgreeC08(e) == e.ev = "layout" => LayoutPair(e) /\ Real(e.r1) = Model(e.r1) /\ Real(e.r2) = Model(e.r2)
\* (systematic sweeps also try separators that are none - nothing, VT - where the two texts are not the same tokens)
AgreeC08e(e) == e.ev = "layout" => Real(e.r1) = Model(e.r1) /\ Real(e.r2) = Model(e.r2)

\* ------------------------------------------------------------------ C19: messages of one text are parsed independently
RECURSIVE JoinTexts(_, _, _)
JoinTexts(parts, seps, i) == IF i > Len(parts) THEN <<>>
                             ELSE parts[i].text \o (IF i <= Len(seps) THEN seps[i] ELSE <<>>) \o JoinTexts(parts, seps, i + 1)
RECURSIVE CatMsgs(_, _)
CatMsgs(parts, i) == IF i > Len(parts) THEN <<>> ELSE Real(parts[i]).msgs \o CatMsgs(parts, i + 1)
RECURSIVE SumWarns(_, _)
SumWarns(parts, i) == IF i > Len(parts) THEN 0 ELSE Len(parts[i].warns) + SumWarns(parts, i + 1)
PropC19(e) == e.ev = "concat" =>
  (\E i \in 1..Len(e.parts) : e.parts[i].outcome # "returned" \/ e.parts[i].errs # <<>>) \/
     /\ e.whole.text = JoinTexts(e.parts, e.seps, 1)
     /\ e.whole.outcome = "returned" /\ e.whole.errs = <<>>
     /\ Real(e.whole).msgs = CatMsgs(e.parts, 1)          \* the messages of the first, then of the second, each as alone
     /\ Len(e.whole.warns) = SumWarns(e.parts, 1)
\* (the parser model is quadratic in the number of variables of a message: very long texts are left to PropC19)
AgreeC19(e) == (e.ev = "concat" /\ Len(e.whole.text) <= 12000) => Real(e.whole) = Model(e.whole)

\* ------------------------------------------------------------------ C15: ASCII variable bounds kept, printed back, enforced
PropC15v(e) == e.ev = "asciivar" =>
  LET m == Model(e) IN
  /\ (e.errs = <<>>) = (m.errs = <<>>) /\ Real(e).msgs = m.msgs /\ Real(e).errs = m.errs
  /\ e.errs = <<>> =>
       LET v == m.msgs[1].item.e[1]                          \* [f A, var, lo, hi, hasHi] as the grammar reads the declaration
           fits(n) == Cmp(v.lo, OfSmall(n)) <= 0 /\ (~v.hasHi \/ Cmp(OfSmall(n), v.hi) <= 0) IN
       /\ P(e.printed, <<>>)!ParseText.msgs = P(e.text, <<>>)!ParseText.msgs        \* printed back
       /\ \A i \in 1..Len(e.fills) : LET f == e.fills[i] IN
             \* enforced when filled (a fill-in value of a Go type that is not documented - the bytes of a string - may be
             \* refused whatever its length; if it is taken, it is taken like the string)
             /\ IF "foreign" \in DOMAIN f THEN f.refused \/ fits(f.len) ELSE f.refused = ~fits(f.len)
             /\ ~f.refused => NormJ(f.item) = [f |-> "L", e |-> <<[f |-> "A", s |-> [k \in 1..f.len |-> 120]]>>
                                               \o (IF e.viaell THEN <<[f |-> "A", s |-> [k \in 1..e.otherlen |-> 120]]>> ELSE <<>>)]

\* ------------------------------------------------------------------ C06 on hostile inputs (isolated worker)
PropC06h(e) == e.ev = "hostile" =>
  /\ e.outcome = "returned"                                \* neither a panic nor a process abort
  /\ e.errs # <<>> => e.nmsgs = 0
  /\ \A i \in 1..Len(e.errs) : IF e.long THEN e.errs[i].ln \in 1..e.lines /\ e.errs[i].col >= 1
                                 ELSE InsideText(e.text, e.errs[i].ln, e.errs[i].col)
  /\ \A i \in 1..Len(e.warns) : IF e.long THEN e.warns[i].ln \in 1..e.lines /\ e.warns[i].col >= 1
                                  ELSE InsideText(e.text, e.warns[i].ln, e.warns[i].col)
  /\ (e.long \/ e.errs # <<>>) \/ (LET m == Model(e) IN m.errs = <<>> /\ Real(e).msgs = m.msgs)

\* C05, every code point outside ASCII inside a literal: intervals of code points on which the real parser's outcome
\* class is constant (the texts at their ends and middle are ordinary parse events, judged by PropC05 against the model).
\* Inside a quoted string every one of them is an error; nowhere does a panic escape or a message come with an error.
PropCp(e) == e.ev = "cpivl" =>
  /\ e.a <= e.b /\ e.prevb < e.a /\ (e.prevb = 127 <=> e.a = 128) /\ e.b <= 1114111 /\ (e.final <=> e.b = 1114111)
  /\ e.class \in {"error", "accepted"}
  /\ e.ctx = "string" => e.class = "error"
InvCp == l > 0 => PropCp(E)
InvC06 == l > 0 => PropC06(E)
InvC05 == l > 0 => PropC05(E)
InvC05x == l > 0 => PropC05x(E)
InvC15 == l > 0 => PropC15(E)
InvC15x == l > 0 => PropC15x(E)
InvAgreeParse == l > 0 => AgreeParse(E)
InvAgreeLex == l > 0 => AgreeLex(E)
InvC04 == l > 0 => PropC04(E)
InvC04x == l > 0 => PropC04x(E)
InvC16x == l > 0 => PropC16x(E)
InvAgreeC04 == l > 0 => AgreeC04(E)
InvC08 == l > 0 => PropC08(E)
InvAgreeC08 == l > 0 => AgreeC08(E)
InvAgreeC08e == l > 0 => AgreeC08e(E)
InvC19 == l > 0 => PropC19(E)
InvAgreeC19 == l > 0 => AgreeC19(E)
InvC15v == l > 0 => PropC15v(E)
InvC06h == l > 0 => PropC06h(E)
=====================================================================
