SPECIFICATION Spec
CONSTANTS
  K = 2
  AsIsD10 = FALSE
  AsIsD12 = FALSE
INVARIANTS LayoutInvariant AllOrNothing
CHECK_DEADLOCK FALSE
