SPECIFICATION PPSpec
CONSTANTS
  MaxStr = 2
  AsIsD10 = FALSE
  AsIsD12 = FALSE
INVARIANTS RoundTrip EmitCase
CHECK_DEADLOCK FALSE
