SPECIFICATION PPSpec
CONSTANTS
  MaxStr = 2
  AsIsD10 = FALSE
  AsIsD12 = FALSE
INVARIANTS RoundTrip VarsPrinted EmitCase
CHECK_DEADLOCK FALSE
