SPECIFICATION PPSpec
CONSTANTS
  MaxStr = 2
  AsIsD10 = FALSE
  AsIsD12 = FALSE
INVARIANT RoundTrip
CHECK_DEADLOCK FALSE
