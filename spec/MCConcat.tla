---------------------------- MODULE MCConcat ----------------------------
(* C19 at model level: for every pair (and triple) of message texts from a  *)
(* small adversarial set - reusing variable names and ellipses across       *)
(* messages, with and without wait bit / direction / name - joined by any   *)
(* separator allowed after a terminator, the parse of the concatenation is  *)
(* the concatenation of the parses; the lexer is back in the header state   *)
(* and the per-message state (names seen, ellipsis counter) starts afresh.  *)
EXTENDS Integers, Sequences, TLC
CONSTANTS AsIsD10, AsIsD12
P(t) == INSTANCE SmlParser WITH input <- t, floats <- <<>>
W(s) == s    \* words are written as char tuples below
Sp == <<32>>
RECURSIVE Words(_)
Words(ws) == IF ws = <<>> THEN <<>> ELSE IF Len(ws) = 1 THEN ws[1] ELSE ws[1] \o Sp \o Words(Tail(ws))
S1F1 == <<83,49,70,49>>   s2f2 == <<115,50,102,50>>   Wb == <<87>>   Wopt == <<91,119,93>>   Dir == <<72,45,62,69>>
Name == <<110,97,109,101>>   LAB == <<60>>   RAB == <<62>>   Dot == <<46>>   L == <<76>>   U1 == <<85,49>>   A == <<65>>
v == <<118>>   Ell == <<46,46,46>>   Ell0 == <<46,46,46,91,48,93>>   Str == <<34,115,34>>   Five == <<53>>
Msgs == { <<S1F1, Dot>>,
          <<S1F1, Wb, LAB, L, v, Ell, RAB, Dot>>,
          <<s2f2, LAB, U1, v, RAB, Dot>>,
          <<S1F1, Wopt, Dir, Name, LAB, A, Str, RAB, Dot>>,
          <<S1F1, LAB, L, LAB, L, v, Ell, RAB, Ell, RAB, Dot>>,
          <<S1F1, LAB, L, LAB, U1, Five, RAB, Ell0, RAB, Dot>>,
          <<S1F1, LAB, L, v, v, RAB, Dot>>,              \* duplicate name: rejected alone
          <<S1F1, Wb>> }                                  \* no terminator: rejected alone
Seps == { <<>>, <<32>>, <<10>>, <<13, 10>>, <<32, 47, 47, 32, 99, 10>>, <<10, 47, 47, 10, 10>>, <<9>> }
VARIABLES a, b, c, s1, s2, ready
Init == a \in Msgs /\ b \in Msgs /\ c = <<>> /\ s1 = <<>> /\ s2 = <<>> /\ ready = FALSE
Next == ~ready /\ ready' = TRUE /\ c' \in Msgs \cup {<<>>} /\ s1' \in Seps /\ s2' \in Seps /\ UNCHANGED <<a, b>>
Spec == Init /\ [][Next]_<<a, b, c, s1, s2, ready>>
Acc(t) == LET r == P(t)!ParseText IN r.outcome = "returned" /\ r.errs = <<>>
Independent == ready =>
  LET ta == Words(a)  tb == Words(b)  tc == Words(c)
      whole == ta \o s1 \o tb \o (IF c = <<>> THEN <<>> ELSE s2 \o tc)
      parts == <<ta, tb>> \o (IF c = <<>> THEN <<>> ELSE <<tc>>)
      pw == P(whole)!ParseText IN
  (\A i \in 1..Len(parts) : Acc(parts[i])) =>
     /\ pw.outcome = "returned" /\ pw.errs = <<>>
     /\ pw.msgs = P(ta)!ParseText.msgs \o P(tb)!ParseText.msgs \o (IF c = <<>> THEN <<>> ELSE P(tc)!ParseText.msgs)
     /\ Len(pw.warns) = Len(P(ta)!ParseText.warns) + Len(P(tb)!ParseText.warns) + (IF c = <<>> THEN 0 ELSE Len(P(tc)!ParseText.warns))
\* vacuity guards: the set really contains accepted and rejected texts, and messages with two ellipses
NonVacuous == /\ Acc(Words(<<S1F1, Wb, LAB, L, v, Ell, RAB, Dot>>)) /\ ~Acc(Words(<<S1F1, LAB, L, v, v, RAB, Dot>>)) /\ ~Acc(Words(<<S1F1, Wb>>))
              /\ LET r == P(Words(<<S1F1, LAB, L, LAB, L, v, Ell, RAB, Ell, RAB, Dot>>))!ParseText IN
                 r.errs = <<>> /\ r.msgs[1].item.e[2] = [ell |-> 1] /\ r.msgs[1].item.e[1].e[2] = [ell |-> 0]
=====================================================================
