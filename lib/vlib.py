"""Orchestration of the model-based checks: TLC runs, Go harness runs, verdict protocol, evidence.

Verdict protocol (DESIGN.md 3.4)
  * A VIOLATION is only ever reported for behaviour of the real code that TLC rejects against the
    specification, and only after the single failing case has been re-executed against a fresh build
    of /repo and rejected again.
  * Anything else that goes wrong (TLC crash, timeout, harness build failure, unreproduced
    rejection, a violated invariant in a pure model run) is exit 2 and never a VIOLATION line.
  * Known findings (known_findings.json) are matched on the failing event; they print
    KNOWN-FINDING and the run carries on with that event masked.
"""
import hashlib
import json
import os
import re
import shutil
import subprocess
import sys
import tempfile
import time

VERIF = os.path.dirname(os.path.dirname(os.path.abspath(__file__)))
REPO = os.environ.get("VERIF_REPO", "/repo")
JAR = "/opt/veriftools/tla/tla2tools.jar:/opt/veriftools/tla/CommunityModules-deps.jar"
GOENV = dict(GOFLAGS="-mod=mod", GOPROXY="off", GOSUMDB="off", GOTOOLCHAIN="local")


class ToolError(Exception):
    """The checking machinery failed (not the code under test): exit 2."""


class TLCResult:
    def __init__(self):
        self.generated = 0
        self.distinct = 0
        self.depth = 0
        self.violated = None      # name of violated invariant / property
        self.kind = None          # "invariant" | "action" | "temporal" | "assume"
        self.line = None          # value of trace variable l in the last state of the counterexample
        self.error = None         # other TLC error text
        self.cases = []           # JSON values printed by the spec as "CASE {...}"
        self.wall = 0.0
        self.coverage = {}
        self.raw_tail = ""
        self.last_state = ""


def log(*a):
    print(*a, file=sys.stderr, flush=True)


class Check:
    def __init__(self, pid, tier, seed, level="model_checking"):
        self.pid = pid
        self.tier = tier
        self.seed = seed
        self.level = level
        self.t0 = time.time()
        self.scratch = tempfile.mkdtemp(prefix="verif-%s-" % pid, dir=os.environ.get("TMPDIR", "/tmp"))
        # the specification and the harness sources as they are now: a long run is not disturbed by later edits
        self.specdir = os.path.join(self.scratch, "spec")
        shutil.copytree(os.path.join(VERIF, "spec"), self.specdir)
        os.makedirs(os.path.join(self.scratch, "hsrc"))
        for f in os.listdir(os.path.join(VERIF, "harness")):
            if f.endswith(".go") or f == "go.mod":
                shutil.copy(os.path.join(VERIF, "harness", f), os.path.join(self.scratch, "hsrc"))
        self.harness = None
        self.harnesses = {}
        self.states = 0
        self.transitions = 0
        self.traces = 0            # events of real-code behaviour validated by TLC
        self.replayed = 0          # TLC-generated cases executed against the real code
        self.evaluations = 0
        self.distinct = set()
        self.nontrivial = set()
        self.samples = []
        self.runs = []             # per stage summaries
        self.violations = []       # confirmed
        self.unreproduced = []     # rejections that re-execution did not reproduce (no verdict)
        self.known = []            # KNOWN-FINDING lines printed
        self.drift = []
        self.assumptions = []
        self.rule = []
        self.exhaustive = None
        self.findings = load_findings()
        self.extra = {}

    # ------------------------------------------------------------------ plumbing
    def cleanup(self):
        shutil.rmtree(self.scratch, ignore_errors=True)

    def build_harness(self, race=False):
        """Builds the harness against REPO's current working tree with -tags verif (in a private copy of the
        harness sources, so that the module's `replace` can point at REPO)."""
        key = "race" if race else "plain"
        if self.harnesses.get(key):
            return self.harnesses[key]
        src = os.path.join(self.scratch, "hsrc")
        if not os.path.exists(os.path.join(src, "go.sum")):
            gm = open(os.path.join(src, "go.mod")).read().replace("=> /repo", "=> " + REPO)
            open(os.path.join(src, "go.mod"), "w").write(gm)
            shutil.copy(os.path.join(REPO, "go.sum"), os.path.join(src, "go.sum"))
        env = dict(os.environ, **GOENV)
        out = os.path.join(self.scratch, "harness-" + key)
        cmd = ["go", "build", "-tags", "verif"] + (["-race"] if race else []) + ["-o", out, "."]
        p = subprocess.run(cmd, cwd=src, env=env, capture_output=True, text=True)
        if p.returncode != 0:
            raise ToolError("harness does not build against %s with -tags verif:\n%s" % (REPO, p.stderr[-3000:]))
        self.harnesses[key] = out
        self.harness = self.harnesses.get("plain")
        return out

    def run_worker(self, driver, args, out_name=None, timeout=1800, seed=None, mem_kb=8000000, race=False, max_aborts=30):
        """Runs an isolated-worker driver (writes a flushed "begin" line before each case). If the worker
        process dies, the case it was executing is recorded with outcome "abort" and the worker is
        restarted behind it. Returns (trace path, stats)."""
        import resource
        h = self.build_harness(race=race)
        env = dict(os.environ)
        if race:
            env["GORACE"] = "halt_on_error=1 exitcode=66"
            mem_kb = None        # the race runtime reserves terabytes of address space
        out = os.path.join(self.scratch, out_name or ("%s.ndjson" % driver))
        if os.path.exists(out):
            os.remove(out)
        frm, aborts, t = 0, 0, time.time()
        only = "-only" in [str(a) for a in args] or "-upto" in [str(a) for a in args]
        for _restart in range(max_aborts + 1):
            cmd = [h, driver, "-seed", str(self.seed if seed is None else seed), "-tier", self.tier, "-out", out,
                   "-append", "-from", str(frm)] + [str(a) for a in args]
            try:
                pre = (lambda: resource.setrlimit(resource.RLIMIT_AS, (mem_kb * 1024, mem_kb * 1024))) if mem_kb else None
                p = subprocess.run(cmd, capture_output=True, text=True, timeout=timeout, env=env, preexec_fn=pre)
            except subprocess.TimeoutExpired:
                raise ToolError("worker %s exceeded its watchdog (%ss) - too slow or hung; not judged" % (driver, timeout))
            if p.returncode == 0:
                break
            lines = open(out).read().splitlines() if os.path.exists(out) else []
            if lines and not lines[-1].endswith("}"):
                lines = lines[:-1]   # a partially written line
            last = json.loads(lines[-1]) if lines else None
            if not last or last.get("ev") != "begin":
                raise ToolError("worker %s died outside a case (exit %s): %s" % (driver, p.returncode, p.stderr[-1500:]))
            ab = dict(last)
            ab.update(ev=driver, variant=1, outcome="abort", ok=False, alloc_kb=0, ms=0,
                      exit=p.returncode, stderr_head=p.stderr[:300])
            lines.append(json.dumps(ab))
            open(out, "w").write("\n".join(lines) + "\n")
            aborts += 1
            frm = last["case"] + 1
            if only:
                break
        # (more than max_aborts aborts: the rest of the cases is not run; the aborts recorded are judged)
        return out, {"worker_aborts": aborts, "_wall_s": round(time.time() - t, 2)}

    def run_harness(self, driver, args, out_name=None, timeout=1800, seed=None, env=None):
        """Runs a harness driver; returns (trace path, stats dict)."""
        h = self.build_harness()
        out = os.path.join(self.scratch, out_name or ("%s.ndjson" % driver))
        stats = out + ".stats"
        cmd = [h, driver, "-seed", str(self.seed if seed is None else seed), "-tier", self.tier,
               "-out", out, "-stats", stats] + [str(a) for a in args]
        t = time.time()
        e = dict(os.environ)
        if env:
            e.update(env)
        try:
            p = subprocess.run(cmd, capture_output=True, text=True, timeout=timeout, env=e)
        except subprocess.TimeoutExpired:
            raise ToolError("harness driver %s timed out after %ss" % (driver, timeout))
        if p.returncode != 0:
            raise ToolError("harness driver %s failed (exit %s):\n%s" % (driver, p.returncode, p.stderr[-3000:]))
        st = {}
        if os.path.exists(stats):
            st = json.load(open(stats))
        st["_wall_s"] = round(time.time() - t, 2)
        return out, st

    def tlc(self, module, cfg, files=(), workers=16, timeout=1800, heap="8g", extra=(), consts=None,
            simulate=None):
        """Runs TLC on spec/<module>.tla with spec/<cfg> in a private directory. `files` are copied in
        (path or (path, name-in-dir)). `consts` overrides constant values in the cfg (name -> text)."""
        d = tempfile.mkdtemp(prefix="tlc-", dir=self.scratch)
        for f in os.listdir(self.specdir):
            if f.endswith(".tla"):
                shutil.copy(os.path.join(self.specdir, f), d)
        cfgtext = open(os.path.join(self.specdir, cfg)).read()
        if consts:
            consts = dict(consts)
            if "INVS" in consts:
                if "@INVS@" not in cfgtext:
                    raise ToolError("%s has no @INVS@ placeholder" % cfg)
                cfgtext = cfgtext.replace("@INVS@", consts.pop("INVS"))
            for k, v in consts.items():
                cfgtext, n = re.subn(r"(?m)^(\s*%s\s*=\s*).*$" % re.escape(k), lambda mm: mm.group(1) + str(v), cfgtext)
                if n == 0:
                    raise ToolError("constant %s not found in %s" % (k, cfg))
        open(os.path.join(d, cfg), "w").write(cfgtext)
        for f in files:
            if isinstance(f, tuple):
                shutil.copy(f[0], os.path.join(d, f[1]))
            else:
                shutil.copy(f, d)
        cmd = ["timeout", "-s", "KILL", str(timeout), "java", "-Xss1g", "-Xmx" + heap, "-XX:+UseParallelGC",
               "-Djava.io.tmpdir=" + d, "-cp", JAR, "tlc2.TLC", "-workers", str(workers), "-metadir", os.path.join(d, "meta"),
               "-config", cfg]
        if simulate:
            cmd += ["-simulate", simulate]
        cmd += list(extra) + [module + ".tla"]
        t = time.time()
        p = subprocess.run(cmd, cwd=d, capture_output=True, text=True)
        r = parse_tlc(p.stdout + "\n" + p.stderr)
        r.wall = round(time.time() - t, 2)
        if p.returncode in (137, -9):
            r.error = "TLC killed after timeout %ss" % timeout
        shutil.rmtree(d, ignore_errors=True)
        return r

    # ------------------------------------------------------------------ stages
    def model(self, label, module, cfg, **kw):
        """A pure model-checking stage. A violation here is a defect of the specification (or of the
        design it states), not of the code: tool error."""
        r = self.tlc(module, cfg, **kw)
        self._account(label, r, kind="model", module=module, cfg=cfg)
        if r.error:
            raise ToolError("%s: TLC error in %s/%s: %s" % (label, module, cfg, r.error))
        if r.violated:
            raise ToolError("%s: the model itself violates %s (%s/%s) - specification defect\n%s"
                            % (label, r.violated, module, cfg, r.raw_tail))
        return r

    def _account(self, label, r, **kw):
        self.states += r.distinct
        self.transitions += r.generated
        d = dict(stage=label, states=r.distinct, transitions=r.generated, depth=r.depth, wall_s=r.wall)
        d.update(kw)
        if r.coverage:
            d["coverage"] = r.coverage
        self.runs.append(d)
        log("[%s] %s: %d distinct / %d generated states, depth %d, %.1fs%s"
            % (self.pid, label, r.distinct, r.generated, r.depth, r.wall,
               (" VIOLATED " + r.violated) if r.violated else ""))

    def trace(self, label, driver, dargs, module, cfg, props, agree=(), files_extra=(), timeout=1800,
              nontrivial=None, key=None, driver_env=None, trace_path=None, stats=None, workers=16, heap="8g",
              consts_extra=None, worker=False, race=False):
        """Go -> TLC: run a driver against the real code, then let TLC check every recorded event.
        props: invariants whose failure is a violation of the property; agree: invariants whose failure
        alone is model drift. Returns the list of events."""
        if trace_path is None and worker:
            trace_path, stats = self.run_worker(driver, dargs, out_name="%s.ndjson" % label, race=race)
        if trace_path is None:
            trace_path, stats = self.run_harness(driver, dargs, out_name="%s.ndjson" % label, env=driver_env)
        stateful = "ChunkSize" not in open(os.path.join(self.specdir, cfg)).read()
        if not stateful and os.path.getsize(trace_path) > 32 * 1024 * 1024:
            # TLC's JSON reader needs about 100 times the file size: events are independent, so a big trace is validated in parts
            parts, cur, size, k = [], None, 0, 0
            for line in open(trace_path):
                if cur is None or size + len(line) > 24 * 1024 * 1024:
                    k += 1
                    if cur is not None:
                        cur.close()
                    parts.append("%s.part%d" % (trace_path, k))
                    cur = open(parts[-1], "w")
                    size = 0
                cur.write(line)
                size += len(line)
            cur.close()
            out = []
            for k, part in enumerate(parts):
                out += self.trace("%s.%d" % (label, k + 1), driver, dargs, module, cfg, props, agree=agree, files_extra=files_extra,
                                  timeout=timeout, nontrivial=nontrivial, key=key, driver_env=driver_env, trace_path=part,
                                  stats=stats if k == 0 else {}, workers=workers, heap=heap, consts_extra=consts_extra, worker=worker, race=race)
                os.remove(part)
                if len(self.violations) >= 3:
                    break
            return out
        events = [json.loads(x) for x in open(trace_path)]
        if not events:
            raise ToolError("%s: driver %s produced no events" % (label, driver))
        self._sample(events, nontrivial, key)
        masked = set()

        def mask(e2):
            if stateful:     # a history is validated as a whole: the event stays, its verdict is waived
                return dict(e2, masked=True)
            return {"ev": "masked", "case": e2.get("case"), "driver": e2.get("driver")}
        # property invariants first, then (separately) the model-agreement invariants
        for phase, invs in (("prop", list(props)), ("agree", list(agree))):
            if not invs:
                continue
            for _round in range(40):
                cs = {"INVS": " ".join(invs)}
                cs.update(consts_extra or {})
                r = self.tlc(module, cfg, files=[(trace_path, "trace.ndjson")], timeout=timeout,
                             consts=cs, workers=workers, heap=heap)
                self._account("%s/%s" % (label, phase), r, kind="trace", module=module, cfg=cfg, driver=driver,
                              driver_stats=stats, events=len(events))
                if r.error:
                    raise ToolError("%s: TLC error validating %s: %s" % (label, driver, r.error))
                if not r.violated:
                    if stateful:
                        expect = len(events) + 1
                    else:
                        cm = re.search(r"ChunkSize\s*=\s*(\d+)", open(os.path.join(self.specdir, cfg)).read())
                        chunk = int((consts_extra or {}).get("ChunkSize", cm.group(1) if cm else 1))
                        expect = 1 + len(events) + (len(events) + chunk - 1) // chunk     # initial + chunk entries + events
                    if r.distinct != expect:
                        raise ToolError("%s: trace not consumed completely (%d states for %d events)"
                                        % (label, r.distinct, len(events)))
                    break
                if r.line is None or not (1 <= r.line <= len(events)):
                    raise ToolError("%s: cannot locate the rejected event (%s)\n%s" % (label, r.violated, r.raw_tail))
                ev = events[r.line - 1]
                if phase == "agree":
                    self.drift.append("%s line %d (%s case %s): %s" % (label, r.line, driver, ev.get("case"), r.violated))
                    print("DRIFT property=%s %s: %s event %s/%s does not match the code-shaped model"
                          % (self.pid, r.violated, driver, ev.get("case"), ev.get("variant", "")), flush=True)
                    break  # drift is reported once per stage; the property invariants were already checked
                kf = self.match_finding(ev, r.violated)
                if kf:
                    self.note_known(kf)
                    # the finding names an input class: every event of that class is the same finding
                    for k, e2 in enumerate(events):
                        if k != r.line - 1 and all(e2.get(a) == b for a, b in kf.get("match", {}).items()):
                            masked.add(k + 1)
                            events[k] = mask(e2)
                else:
                    self.confirm(label, driver, dargs, module, cfg, r.violated, ev, driver_env, worker, race)
                    if len(self.violations) >= 3:
                        break
                # mask the event and carry on with the rest of the trace
                masked.add(r.line)
                events[r.line - 1] = mask(ev)
                with open(trace_path, "w") as f:
                    for e in events:
                        f.write(json.dumps(e) + "\n")
        self.traces += len(events) - len(masked)
        return events

    def _sample(self, events, nontrivial, key):
        for e in events:
            self.evaluations += 1
            k = key(e) if key else json.dumps({a: b for a, b in e.items() if a not in ("case", "seed", "variant")}, sort_keys=True)
            h = hashlib.sha1(k.encode() if isinstance(k, str) else k).hexdigest()
            self.distinct.add(h)
            if nontrivial is None or nontrivial(e):
                self.nontrivial.add(h)
        for e in events[:: max(1, len(events) // 3)][:3]:
            s = json.dumps(e)
            self.samples.append(json.loads(s) if len(s) < 1500 else {"truncated_event": s[:1500]})

    # ------------------------------------------------------------------ verdicts
    def match_finding(self, ev, inv):
        for f in self.findings.get("findings", []):
            if f.get("property") != self.pid:
                continue
            m = f.get("match", {})
            if all(ev.get(k) == v for k, v in m.items()):
                return f
        return None

    def note_known(self, f):
        line = "KNOWN-FINDING: property=%s %s" % (self.pid, f["what"])
        if line not in self.known:
            self.known.append(line)
            print(line, flush=True)

    def confirm(self, label, driver, dargs, module, cfg, inv, ev, driver_env=None, worker=False, race=False):
        """Re-execute the single failing case against a fresh build and let TLC judge it again."""
        rp = self.replay_record(label, driver, dargs, module, cfg, inv, ev, driver_env)
        rp["worker"] = worker
        rp["race"] = race
        ok, why = run_replay(self, rp)
        if ok is False and not race:
            # the case alone is accepted: the rejection may depend on the calls made before it in the same process
            # (state carried between calls is itself against the per-call properties). Re-execute cases 0..k.
            rp2 = self.replay_record(label, driver, dargs, module, cfg, inv, ev, driver_env, prefix=True)
            rp2["worker"] = worker
            rp2["race"] = race
            ok2, why2 = run_replay(self, rp2)
            if ok2 is True:
                rp, ok, why = rp2, True, why2 + " (only after the cases before it ran in the same process)"
        if ok is True:
            path = self.save_replay(rp)
            self.violations.append(path)
            print("VIOLATION property=%s replay=%s" % (self.pid, path), flush=True)
            log("[%s] %s" % (self.pid, why))
        else:
            # not a verdict. The rest of the trace is still checked (a later, solid rejection is not hidden by a
            # flaky earlier one); if nothing is confirmed in the end, the check stops with exit 2.
            msg = "%s: rejection of %s case %s not reproduced on re-execution (%s)" % (label, driver, ev.get("case"), why)
            log("[%s] %s" % (self.pid, msg))
            self.unreproduced.append(msg)
            if len(self.unreproduced) > 5:
                raise ToolError(msg + " - and %d more" % (len(self.unreproduced) - 1))

    def replay_record(self, label, driver, dargs, module, cfg, inv, ev, driver_env=None, prefix=False):
        dargs = [str(a) for a in dargs]
        table, case = None, ev.get("case")
        if "-in" in dargs:
            # make the replay self-contained: embed the case table (or just the one case) the driver reads
            pth = dargs[dargs.index("-in") + 1]
            lines = open(pth).read().splitlines()
            if prefix:
                table = lines[:case + 1]
            elif driver in ("hsms-enum", "conc-cold") or len(lines) <= 300:   # (drivers whose cases are not table lines)
                table = lines
            else:
                table, case = [lines[case]], 0
            dargs[dargs.index("-in") + 1] = "@TABLE@"
        return dict(table=table, replay_case=case, prefix=prefix, property=self.pid, stage=label, driver=driver, driver_args=[str(a) for a in dargs],
                    seed=ev.get("seed", self.seed), case=ev.get("case"), variant=ev.get("variant"),
                    module=module, cfg=cfg, invariant=inv, tier=self.tier, driver_env=driver_env or {}, event=ev)

    def save_replay(self, rp):
        d = os.path.join(os.environ.get("VERIF_REPLAY_DIR") or os.path.join(VERIF, "replays"), self.pid)
        os.makedirs(d, exist_ok=True)
        s = json.dumps(rp, sort_keys=True)
        if len(s) > 400000:   # keep replay files small: the case is regenerated from (driver, seed, case)
            rp = dict(rp)
            rp["event"] = {"truncated": True, "ev": rp["event"].get("ev"), "how": rp["event"].get("how")}
            s = json.dumps(rp, sort_keys=True)
        name = "%s-%s-%s.json" % (rp["driver"], rp["seed"], hashlib.sha1(s.encode()).hexdigest()[:10])
        path = os.path.join(d, name)
        open(path, "w").write(s)
        return path

    # ------------------------------------------------------------------ evidence
    def finish(self):
        cov = dict(states=self.states, transitions=self.transitions,
                   traces_validated_against_impl=self.traces,
                   cases_replayed_into_impl=self.replayed,
                   evaluations=self.evaluations + self.replayed,
                   distinct_nontrivial=len(self.nontrivial),
                   distinct=len(self.distinct),
                   rule="; ".join(self.rule),
                   samples=self.samples[:8] or [{"note": "no samples"}],
                   stages=self.runs,
                   known_findings=self.known, model_drift=self.drift)
        if self.exhaustive is not None:
            cov["exhaustive"] = self.exhaustive
        cov.update(self.extra)
        ev = dict(property_id=self.pid, tier=self.tier, seed=self.seed, level=self.level, coverage=cov,
                  assumptions=self.assumptions, wall_s=round(time.time() - self.t0, 2),
                  violations=len(self.violations))
        evdir = os.environ.get("VERIF_EVIDENCE_DIR") or os.path.join(VERIF, "evidence")
        os.makedirs(evdir, exist_ok=True)
        with open(os.path.join(evdir, "%s.json" % self.pid), "w") as f:
            json.dump(ev, f, indent=1)
        return 1 if self.violations else 0


def _fw(self):
    return time.time() - self.t0


Check.finish_wall = _fw


def load_findings():
    p = os.path.join(VERIF, "known_findings.json")
    if os.path.exists(p):
        return json.load(open(p))
    return {"findings": [], "fixed": []}


def run_replay(ck, rp):
    """Re-executes one recorded case against the current /repo and asks TLC again.
    Returns (True, text) if TLC rejects it again, (False, text) if it is accepted now."""
    args = list(rp["driver_args"])
    if rp.get("table") is not None:
        tp = os.path.join(ck.scratch, "replay-table.ndjson")
        open(tp, "w").write("\n".join(rp["table"]) + "\n")
        args = [tp if a == "@TABLE@" else a for a in args]
    case = rp.get("replay_case", rp["case"])
    args += ["-upto" if rp.get("prefix") else "-only", str(case)]
    if rp.get("race"):
        # a data race shows only when the accesses actually overlap: more rounds, several attempts
        if "-n" in args:
            args[args.index("-n") + 1] = "60"
        for attempt in range(4):
            path, st = ck.run_worker(rp["driver"], args, out_name="replay.ndjson", seed=rp["seed"], race=True)
            if st.get("worker_aborts") or any(json.loads(x).get("got") != json.loads(x).get("solo") or json.loads(x).get("outcome") != "returned"
                                              or json.loads(x).get("after", json.loads(x).get("solo")) != json.loads(x).get("solo")
                                              for x in open(path) if '"conc"' in x):
                break
    elif rp.get("worker"):
        path, _ = ck.run_worker(rp["driver"], args, out_name="replay.ndjson", seed=rp["seed"], race=rp.get("race", False))
    else:
        path, _ = ck.run_harness(rp["driver"], args, out_name="replay.ndjson", seed=rp["seed"], env=rp.get("driver_env"))
    events = [json.loads(x) for x in open(path)]
    cfgtext = open(os.path.join(ck.specdir, rp["cfg"])).read()
    stateful = "ChunkSize" not in cfgtext      # a history is validated as a whole
    if rp.get("variant") is not None and not stateful:
        events = [e for e in events if e.get("variant") == rp["variant"]]
    if not events:
        return None, "the case produced no event on re-execution"
    with open(path, "w") as f:
        for e in events:
            f.write(json.dumps(e) + "\n")
    consts = {"INVS": rp["invariant"]}
    if not stateful:
        consts["ChunkSize"] = 1
    r = ck.tlc(rp["module"], rp["cfg"], files=[(path, "trace.ndjson")], consts=consts, workers=2)
    if r.error:
        raise ToolError("TLC error during replay: %s" % r.error)
    if r.violated:
        return True, "re-executed %s case %s: TLC rejects it again (%s)" % (rp["driver"], rp["case"], r.violated)
    return False, "accepted on re-execution"


_num = lambda s: int(s.replace(",", ""))


def parse_tlc(out):
    r = TLCResult()
    r.raw_tail = out[-2500:]
    m = None
    for m in re.finditer(r"([\d,]+) states generated, ([\d,]+) distinct states found", out):
        pass
    if m:
        r.generated, r.distinct = _num(m.group(1)), _num(m.group(2))
    m = re.search(r"The depth of the complete state graph search is (\d+)", out)
    if m:
        r.depth = int(m.group(1))
    m = re.search(r"Error: Invariant (\w+) is violated", out)
    if m:
        r.violated, r.kind = m.group(1), "invariant"
    m2 = re.search(r"Error: Action property (\w+) is violated", out)
    if m2 and not r.violated:
        r.violated, r.kind = m2.group(1), "action"
    if not r.violated and "Temporal properties were violated" in out:
        r.violated, r.kind = "temporal", "temporal"
    if not r.violated:
        m3 = re.search(r"Error: (.*)", out)
        if m3 and "Model checking completed. No error" not in out:
            r.error = out[m3.start(): m3.start() + 1500]
        elif "Model checking completed" not in out and "Finished in" not in out and not r.generated:
            r.error = "TLC did not complete:\n" + out[-1500:]
    ls = re.findall(r"(?m)^(?:/\\ )?l = (\d+)\s*$", out)
    if ls:
        r.line = int(ls[-1])
    st = out.rfind("\nState ")
    if st >= 0:
        r.last_state = out[st: st + 3000]
    for line in out.splitlines():
        if line.startswith('"CASE '):
            try:
                s = json.loads(line)
                r.cases.append(json.loads(s[5:]))
            except Exception as e:  # noqa
                raise ToolError("cannot parse CASE line from TLC: %s (%s)" % (line[:200], e))
    for m in re.finditer(r"<(\w+) line \d+, col \d+ to line \d+, col \d+ of module (\w+)>: (\d+):(\d+)", out):
        r.coverage["%s!%s" % (m.group(2), m.group(1))] = int(m.group(4))
    return r
