"""Per-property decision procedures (DESIGN.md section 4)."""
import json

from vlib import ToolError, log

CHECKS = {}


def check(pid):
    def deco(f):
        CHECKS[pid] = f
        return f
    return deco


def q(ck, quick, thorough):
    return quick if ck.tier == "quick" else thorough


def write_cases(ck, cases, name):
    import os
    p = os.path.join(ck.scratch, name)
    with open(p, "w") as f:
        for c in cases:
            f.write(json.dumps(c) + "\n")
    return p


# ---------------------------------------------------------------------------------------------- C03
@check("C03")
def c03(ck):
    ck.rule.append("model: every text of length <= N over 16 control-flow-relevant bytes behind a good header and "
                   "<= NH behind 168 header variants, each run step by step through the decoder machine; "
                   "co-enumeration: the same texts through the real hsms.Parse (exact-capacity and poisoned-tail "
                   "buffers), accepted set and re-encodings compared with the table TLC derived from the grammar; "
                   "traces: random valid encodings, non-minimal rewritings and single-point corruptions; "
                   "an event is non-trivial if the input is at least a full header (>= 14 bytes); distinct by input bytes")
    n = q(ck, 4, 5)
    r = ck.model("MCDecoder", "MCDecoder", "MCDecoder_%s.cfg" % ck.tier, timeout=q(ck, 600, 3000))
    table = write_cases(ck, r.cases, "accepted.ndjson")
    if not r.cases:
        raise ToolError("the specification accepted no text in scope: vacuous")
    # Go side enumerates the same scope through the real decoder
    path, st = ck.run_harness("hsms-enum", ["-n", n, "-in", table], out_name="enum.ndjson")
    if st.get("enum.table") != len(r.cases):
        raise ToolError("table not read completely by the harness")
    ck.replayed += st.get("enum.inputs", 0)
    ck.extra["co_enumeration"] = dict(scope_inputs=st.get("enum.inputs"), spec_accepts=len(r.cases),
                                      code_accepts=st.get("enum.accepted"), disagreements=st.get("enum.disagreements", 0))
    ck.exhaustive = True
    nt = lambda e: len(e.get("bytes", [])) >= 14
    key = lambda e: json.dumps(e.get("bytes"))
    ck.trace("enum", "hsms-enum", ["-n", n, "-in", table], "TraceCodec", "TraceCodec.cfg", ["InvC03"],
             agree=["InvAgreeDecoder"], trace_path=path, stats=st, nontrivial=nt, key=key)
    ck.trace("corrupt", "corrupt", ["-n", q(ck, 30, 1500)], "TraceCodec", "TraceCodec.cfg", ["InvC03", "InvC13"],
             agree=["InvAgreeDecoder"], nontrivial=nt, key=key)
    ck.assumptions += ["TLC explores the decoder model exhaustively only inside the stated scope",
                       "the harness projection (zz_verif.go, proj.go) reports the stored representation faithfully",
                       "message name and direction are not on the wire and are not compared"]
