"""Per-property decision procedures (DESIGN.md section 4)."""
import json

from vlib import ToolError, log

CHECKS = {}
META = {}


def check(pid, **meta):
    def deco(f):
        CHECKS[pid] = f
        META[pid] = meta
        return f
    return deco


def q(ck, quick, thorough):
    return quick if ck.tier == "quick" else thorough


def write_cases(ck, cases, name):
    import os
    p = os.path.join(ck.scratch, name)
    with open(p, "w") as f:
        for c in cases:
            f.write(json.dumps(c) + "\n")
    return p


# ---------------------------------------------------------------------------------------------- the library in use
def _app_stage(ck, props, exhaustive=False):
    """HsmsApp: host and equipment exchanging SECS-II transactions over HSMS. The model is checked exhaustively (where
    asked), then simulated behaviours are replayed with the library in the role of the application: dictionary in SML,
    templates filled through ellipses, messages stamped, encoded, decoded, printed, replies made from what was decoded."""
    if exhaustive:
        ck.model("HsmsApp", "HsmsApp", "HsmsApp_%s.cfg" % ck.tier, timeout=q(ck, 600, 3000))
        ck.model("HsmsApp/liveness", "HsmsApp", "HsmsApp_live.cfg", timeout=600)
    r = ck.tlc("HsmsApp", "HsmsApp_sim.cfg", workers=1, simulate="num=%d" % q(ck, 300, 3000),
               extra=["-depth", "18", "-seed", str(ck.seed)])
    if r.error and not r.cases:
        raise ToolError("HsmsApp simulation failed: %s" % r.error)
    # (the history is printed for every successor generated at the last step: one behaviour per simulation run is kept)
    seen, behaviours = set(), []
    for b in r.cases:
        k = json.dumps(b[:-1], sort_keys=True)
        if k not in seen:
            seen.add(k)
            behaviours.append(b)
    if len(behaviours) < 20:
        raise ToolError("HsmsApp simulation produced too few behaviours: %d" % len(behaviours))
    ck.states += r.distinct
    ck.transitions += r.generated
    n = q(ck, 300, 3000)
    btable = write_cases(ck, behaviours[:n], "app-behaviours.ndjson")
    ev = ck.trace("app", "app", ["-in", btable], "TraceCodec", "TraceCodec.cfg", props,
                  nontrivial=lambda e: e.get("ev") == "rt" and e.get("msg", {}).get("item", {}).get("f") not in (None, "none"),
                  key=lambda e: json.dumps([e.get("ev"), e.get("how"), e.get("bytes"), e.get("expect")]))
    ck.replayed += min(len(behaviours), n)
    names = {}
    for e in ev:
        if e.get("ev") == "rt":
            names[e.get("how")] = names.get(e.get("how"), 0) + 1
    ck.extra["app_behaviours_replayed"] = dict(behaviours=min(len(behaviours), n), data_frames=names,
                                               control_frames=sum(1 for e in ev if e.get("ev") == "appctl"),
                                               receptions=sum(1 for e in ev if e.get("ev") == "apprecv"))
    if not ck.violations and (names.get("app-reply", 0) == 0 or names.get("app-send", 0) == 0):
        raise ToolError("the replayed behaviours exchanged no data transactions: vacuous")


# ---------------------------------------------------------------------------------------------- C03
@check("C03", design_ref="4 C03, App. F",
       technique="TLC model checking of a TLA+ decoder machine vs a strict grammar; co-enumeration and trace validation of real hsms.Parse results against the TLA+ grammar",
       text="TLC proves, for every input of a bounded scope, that the code-shaped decoder machine accepts exactly the strings of the "
            "declarative E5/E37 grammar and terminates; the real hsms.Parse is then bound to that grammar by running the same scope "
            "(exhaustively) and seeded corruptions of random encodings through it and letting TLC check every recorded verdict, decoded "
            "message and re-encoding against the grammar. The property is a set equality over all byte strings, which only an independent "
            "grammar can state."
            " Real items at every length-byte boundary and very long lists of empty items, honestly declared, are co-validated as run-length summaries.",
       note="exhaustive only inside the scope (16-byte alphabet, text <= 4/5 bytes; 168 header variants); beyond it seeded traces; TLC, the JSON module and the harness projection are trusted")
def c03(ck):
    ck.rule.append("model: every text of length <= N over 16 control-flow-relevant bytes behind a good header and "
                   "<= NH behind 168 header variants, each run step by step through the decoder machine; "
                   "co-enumeration: the same texts through the real hsms.Parse (exact-capacity and poisoned-tail "
                   "buffers), accepted set and re-encodings compared with the table TLC derived from the grammar; "
                   "traces: random valid encodings, non-minimal rewritings and single-point corruptions; "
                   "an event is non-trivial if the input is at least a full header (>= 14 bytes); distinct by input bytes")
    n = q(ck, 4, 5)
    r = ck.model("MCDecoder", "MCDecoder", "MCDecoder_%s.cfg" % ck.tier, timeout=q(ck, 600, 3000))
    table = write_cases(ck, r.cases, "accepted.ndjson")
    if not r.cases:
        raise ToolError("the specification accepted no text in scope: vacuous")
    # Go side enumerates the same scope through the real decoder
    path, st = ck.run_harness("hsms-enum", ["-n", n, "-in", table], out_name="enum.ndjson")
    if st.get("enum.table") != len(r.cases):
        raise ToolError("table not read completely by the harness")
    ck.replayed += st.get("enum.inputs", 0)
    ck.extra["co_enumeration"] = dict(scope_inputs=st.get("enum.inputs"), spec_accepts=len(r.cases),
                                      code_accepts=st.get("enum.accepted"), disagreements=st.get("enum.disagreements", 0))
    ck.exhaustive = True
    nt = lambda e: len(e.get("bytes", [])) >= 14
    key = lambda e: json.dumps(e.get("bytes"))
    ck.trace("enum", "hsms-enum", ["-n", n, "-in", table], "TraceCodec", "TraceCodec.cfg", ["InvC03"],
             agree=["InvAgreeDecoder"], trace_path=path, stats=st, nontrivial=nt, key=key)
    ck.trace("corrupt", "corrupt", ["-n", q(ck, 30, 250)], "TraceCodec", "TraceCodec.cfg", ["InvC03", "InvC13"],
             agree=["InvAgreeDecoder"], nontrivial=nt, key=key)
    if ck.violations:
        return
    # well-formed however long: lists of 65 537 ... 250 000 (thorough: 4 M) empty items with one more list behind them
    # ... and real items of every format at every length-byte boundary, decoded from a buffer that is overwritten afterwards
    ck.trace("big", "big", [], "TraceCodec", "TraceCodec.cfg", ["InvBig", "InvSeq"],
             nontrivial=lambda e: e.get("n", 0) >= 31 or e.get("ev") in ("bigseq", "bigflat", "bigroute"))
    ck.assumptions += ["TLC explores the decoder model exhaustively only inside the stated scope",
                       "the harness projection (zz_verif.go, proj.go) reports the stored representation faithfully",
                       "message name and direction are not on the wire and are not compared"]


# ---------------------------------------------------------------------------------------------- C01 / C02
def _codec_common(ck, props, label_rule):
    ck.rule.append(label_rule)
    r = ck.model("MCRoundTrip", "MCRoundTrip", "MCRoundTrip_%s.cfg" % ck.tier, timeout=q(ck, 600, 3000))
    if not r.cases:
        raise ToolError("MCRoundTrip emitted no cases")
    table = write_cases(ck, r.cases, "rtcases.ndjson")
    nt = lambda e: e.get("msg", {}).get("item", {}).get("f") not in (None, "none")
    key = lambda e: json.dumps([e.get("msg"), e.get("bytes")], sort_keys=True)
    # TLC -> Go: the model's messages built through the factories
    ev = ck.trace("replay", "rt-replay", ["-in", table], "TraceCodec", "TraceCodec.cfg", props + ["InvExpect"],
                  nontrivial=nt, key=key)
    ck.replayed += len(ev)
    if ck.violations:
        return
    # Go -> TLC: random messages built by factories, life cycle, fill, SML parser, HSMS decoder
    ck.trace("rt", "rt", ["-n", q(ck, 1500, 12000)], "TraceCodec", "TraceCodec.cfg", props,
             agree=["InvAgreeDecoder"], nontrivial=nt, key=key)
    ck.assumptions += ["float bit patterns are supplied by math.Float32bits/Float64bits in the harness (trusted)",
                       "the projection (zz_verif.go, proj.go) reports the stored representation faithfully",
                       "TLC scope: leaves with <= 2 boundary values, lists to depth 2; beyond that seeded random traces"]


@check("C01", design_ref="4 C01, App. F, H",
       technique="TLC model checking of encoder/decoder-machine round trip; TLC-generated messages replayed through the real factories; trace validation of real encode/decode/re-encode events",
       text="TLC checks the round trip on the model for every message of a bounded scope (including the complete stream/function/W-bit and "
            "session-id spaces); the same messages are built with the real factories (TLC -> Go), and seeded random messages built six ways are "
            "encoded, decoded and re-encoded by the real code (Go -> TLC); TLC compares the representation-level projection of the decoded "
            "message with the original and the bytes with the specification's."
            " Real items of every format at every length-byte boundary (alone, behind each other, very many small ones behind a sibling) are decoded from a receive buffer that is overwritten afterwards (run-length summaries)."
            " In use: simulated behaviours of HsmsApp (host and equipment exchanging SECS-II transactions over HSMS) are replayed with the library as the application - messages of an SML dictionary filled through ellipses, stamped, encoded, decoded at the other end, replies made from what was decoded.",
       note="scope bounds as in MCRoundTrip.cfg; random trees to depth 5; items above 4095 elements are covered by the run-length 'big' driver (C13)")
def c01(ck):
    _codec_common(ck, ["InvC01"],
                  "model: every message of MCRoundTrip's scope (13 leaf formats x boundary payloads, lists to depth 2, "
                  "all 65536 (s,f,w) and all 65536 session ids) through the decoder machine and the grammar; "
                  "replay: a sample of those messages built with the real factories; traces: random complete messages "
                  "built 6 ways (factory, life cycle, fill, SML parser, HSMS decoder, size boundaries 255|256 and 65535|65536), "
                  "decoded from an exact-capacity and a poisoned-tail buffer and re-encoded; non-trivial = has an item; "
                  "distinct by (message projection, bytes)")
    if ck.violations:
        return
    # any size: real items of every format at every length-byte boundary, alone and behind each other, decoded from a
    # buffer that is overwritten afterwards (run-length summaries)
    ck.trace("big", "big", [], "TraceCodec", "TraceCodec.cfg", ["InvBig", "InvSeq"],
             nontrivial=lambda e: e.get("n", 0) >= 31 or e.get("ev") == "bigseq")
    if ck.violations:
        return
    # in use: messages of a dictionary written in SML, filled, stamped, sent over a modelled HSMS link and decoded there
    ck.rule.append("in use: simulated behaviours of HsmsApp replayed; every data frame is a round-trip event, every reception "
                   "is judged against the message the model sent")
    _app_stage(ck, ["InvC01", "InvExpect", "InvApp"])


@check("C02", design_ref="4 C02, App. H",
       technique="TLA+ statement of the SEMI E5/E37 encoding as oracle; TLC-computed bytes replayed against real ToBytes(); trace validation of real encodings of complete and incomplete messages",
       text="Secs2.tla states the wire format independently of the code (format byte, shortest length, two's complement, IEEE-754, children in "
            "order, 10-byte header); TLC checks layout lemmas on it and then every recorded ToBytes() of the real code - complete and incomplete "
            "messages - against EncMsg of the representation-level projection. A round trip cannot see an encoder and decoder that agree on a "
            "wrong format; this can."
            " Messages that came out of the decoder (from non-minimal spellings) and the frames an application produces from an SML dictionary (HsmsApp behaviours) are judged the same way.",
       note="float bit patterns come from math.Float32bits/Float64bits in the harness; the projection is trusted")
def c02(ck):
    _codec_common(ck, ["InvC02"],
                  "model: layout lemmas (format byte, shortest length, header fields, children in order) on MCRoundTrip's "
                  "scope; replay: TLC-computed bytes vs real ToBytes() for a sample of the scope; traces: ToBytes() of random "
                  "complete and incomplete messages (each incompleteness cause alone and combined) against EncMsg of the "
                  "projection; non-trivial = has an item; distinct by (message projection, bytes)")
    if ck.violations:
        return
    # items and messages at the size boundaries (run-length summaries): header, payload, message frame
    ck.trace("big", "big", [], "TraceCodec", "TraceCodec.cfg", ["InvBig", "InvSeq"],
             nontrivial=lambda e: e.get("n", 0) >= 31 or e.get("ev") in ("bigseq", "bigflat"))
    if ck.violations:
        return
    # messages that came out of the decoder (non-minimal length bytes, booleans other than 0/1, ...) encode canonically
    ck.rule.append("corrupt: re-encodings of messages decoded from non-canonical spellings against EncMsg of their projection")
    ck.trace("corrupt", "corrupt", ["-n", q(ck, 30, 250)], "TraceCodec", "TraceCodec.cfg", ["InvC02"],
             nontrivial=lambda e: e.get("ok") and len(e.get("bytes", [])) > 14, key=lambda e: json.dumps(e.get("bytes")))
    if ck.violations:
        return
    # in use: the frames an application produces from its SML dictionary against the bytes the protocol model computed
    _app_stage(ck, ["InvC02", "InvExpect", "InvAppStream"])
    if ck.violations:
        return
    c02_values(ck)


def c02_values(ck):
    """every value of the 1- and 2-byte formats and F4 bit patterns, as interval summaries validated by TLC"""
    ck.trace("values", "val-sweep", [], "TraceCodec", "TraceCodec.cfg", ["InvVal"], consts_extra={"ChunkSize": 1}, timeout=1200)
    ck.extra["value_sweep"] = ("B, A, I1, U1, I2, U2: every value and the values around the range; F4: %s"
                               % ("all 2^32 bit patterns" if ck.tier == "thorough" else "every high half x low halves 0, 1, 0xFFFF"))


# ---------------------------------------------------------------------------------------------- C13
@check("C13", design_ref="4 C13",
       technique="TLC sweep of the TLA+ item-header definition over every size; interval summaries of the real header routine (verif hook) and run-length summaries of real items at every boundary validated by TLC",
       text="The space is finite (14 formats x 16,777,232 sizes): TLC sweeps the specification's ItemHeader over it (thorough: every size; quick: "
            "stride 61 plus every breakpoint +-3) and the harness sweeps the real, unexported header routine over the same sizes, reporting the "
            "maximal intervals on which its class is constant; TLC checks each interval (thorough: every point of it) and sampled header bytes "
            "against the specification. Real items are then built at 0,1,2, 255|256, 65535|65536 and max|max+1 elements for every format, encoded, "
            "decoded and re-encoded; TLC checks constructibility, header, payload runs, the length the decoder read (hook) and the decoded values."
            " The limit is also approached through fills (ASCII variables with every bound form, alone, in a list, in a message; in the thorough tier a nested list grown by an ellipsis).",
       note="quick tier thins the sweep (windows of +-40 sizes around every breakpoint, stride 257 between); lists of 16.7 M children are decoded "
            "in the thorough tier only; payloads are compared as run-length summaries computed by the harness")
def c13(ck):
    ck.rule.append("sweep: sizes 0..max+16 x 14 formats through VerifHeaderBytes (interval = maximal run of sizes with the same "
                   "error/format-byte/length-byte-count class and exact declared length); big: real items with n elements for n at "
                   "every boundary; non-trivial = interval or point events, and big events with n >= 255/width; distinct by event content")
    ck.model("MCHeader", "MCHeader", "MCHeader_%s.cfg" % ck.tier, timeout=q(ck, 300, 3000))
    ck.trace("sweep", "hdr-sweep", [], "TraceCodec", "TraceCodec.cfg", ["InvHdr"], timeout=q(ck, 300, 3000),
             consts_extra={"ChunkSize": 1})
    if ck.violations:
        return
    ck.exhaustive = ck.tier == "thorough"
    ck.trace("big", "big", [], "TraceCodec", "TraceCodec.cfg", ["InvBig", "InvSeq"],
             nontrivial=lambda e: e.get("n", 0) >= 31 or e.get("ev") == "bigseq")
    if ck.violations:
        return
    # element counts around 255|256 with random values, through the ordinary round-trip events
    ck.trace("rt", "rt", ["-n", q(ck, 400, 3000)], "TraceCodec", "TraceCodec.cfg", ["InvC13"])
    ck.assumptions += ["run-length compression and big-endian decoding of the length bytes in the harness are trusted plumbing",
                       "TLC 32-bit integers suffice: the largest product is 2,097,168 * 8"]


# ---------------------------------------------------------------------------------------------- C07
@check("C07", design_ref="4 C07",
       technique="TLC model checking of the decoder machine (in-bounds, termination, amortised allocation invariant); trace validation of isolated-worker runs of real hsms.Parse with runtime.MemStats as instrument",
       text="On the model TLC checks, for every input of the bounded scope, that the decoder machine never reads out of bounds, always terminates and "
            "that every element slot it requests is paid for by input bytes already consumed (which pre-allocation by declared count falsifies in "
            "a 4-byte text). The real decoder is run in an isolated worker on adversarial families (huge declared lengths at each depth and format, "
            "nested lists declaring as many elements as bytes remain, long and truncated payloads, deep nesting, random bytes); TLC checks each "
            "recorded outcome and TotalAlloc delta against the specification's fixed linear bound.",
       note="runtime.MemStats.TotalAlloc, process exit status and RLIMIT_AS are instruments; running time is not judged (a watchdog overrun is exit 2); "
            "the bound 4 KB/byte + 64 KB is fixed in HsmsDecoder.tla")
def c07(ck):
    ck.rule.append("model: MCDecoder scope; traces: about 490 adversarial inputs per seed in 8 families, each run in an isolated worker process "
                   "(RLIMIT_AS 8 GB) recording outcome and bytes allocated; non-trivial = input longer than the 14-byte frame; distinct by family and head")
    ck.model("MCDecoder", "MCDecoder", "MCDecoder_%s.cfg" % ck.tier, timeout=q(ck, 600, 3000))
    ck.trace("alloc", "alloc", [], "TraceCodec", "TraceCodec.cfg", ["InvC07"], worker=True,
             nontrivial=lambda e: e.get("ev") == "alloc" and e.get("len", 0) > 14,
             key=lambda e: json.dumps([e.get("ev"), e.get("family"), e.get("len"), e.get("head")]))
    ck.assumptions += ["TotalAlloc measured in-process around hsms.Parse (GC cannot lower it)",
                       "asymptotic 'linear' is decided as a fixed numeric bound on the families run, plus the amortised invariant on the model"]


# ---------------------------------------------------------------------------------------------- C14
@check("C14", design_ref="4 C14",
       technique="TLA+ specification of the HSMS control messages; TLC-enumerated constructor calls replayed through the real constructors; exhaustive (PType,SType) and session-id sweeps of the real code validated by TLC",
       text="ControlMsg.tla states every control message kind as a function into the ten header bytes, the type as a function of (PType, SType) and the "
            "request/response pairing; TLC checks it against the decoder grammar for all 65,536 pairs. 6,144 constructor-call cases enumerated by TLC "
            "are executed with the real constructors; the real Type() is swept over all pairs and every constructor over all 65,536 session ids "
            "(as intervals), response constructors are called with every kind of request, and random headers are built, encoded and decoded; TLC "
            "judges every recorded result."
            " All 256 status/reason codes at five session ids are built and decoded back; pairs of different headers with equal 32-bit checksums are decoded one after the other; request constructors are given more than four system bytes."
            " HsmsApp (connection state machine with T3/T6/T7 time-outs, SECS-II transactions, S9Fx and SxF0) is model-checked incl. a liveness property and its behaviours replayed with the library.",
       note="a control message with SType 0 cannot be produced through the typed constructors; its Type() ('undefined' today) is a declared freedom")
def c14(ck):
    ck.rule.append("replay: 3 PTypes x 256 codes x 4 session ids x 2 system-byte words through all 8 constructors; sweeps: Type() on all 65,536 "
                   "(PType,SType) pairs, all 65,536 session ids x 8 kinds x 3 codes; pairing: 3 response constructors x 11 request kinds; "
                   "raw: random headers encoded and decoded; non-trivial = every event; distinct by content")
    r = ck.model("MCControl", "MCControl", "MCControl.cfg", timeout=600)
    table = write_cases(ck, r.cases, "ctrlcases.ndjson")
    ev = ck.trace("replay", "ctrl-replay", ["-in", table], "TraceCodec", "TraceCodec.cfg", ["InvC14"])
    ck.replayed += len(ev)
    if ck.violations:
        return
    ck.exhaustive = True
    ck.trace("ctrl", "ctrl", ["-n", q(ck, 1500, 30000)], "TraceCodec", "TraceCodec.cfg", ["InvC14", "InvC03"])
    if ck.violations:
        return
    # the messages in use: the HSMS session protocol (two entities, select / deselect / linktest / separate / reject / data)
    ck.model("HsmsSession", "HsmsSession", "HsmsSession_%s.cfg" % ck.tier, timeout=q(ck, 300, 1800))
    r = ck.tlc("HsmsSession", "HsmsSession_sim.cfg", workers=1, simulate="num=%d" % q(ck, 800, 8000),
               extra=["-depth", "14", "-seed", str(ck.seed)])
    if r.error and not r.cases:
        raise ToolError("HsmsSession simulation failed: %s" % r.error)
    # (the history is printed for every successor generated at the last step: one behaviour per simulation run is kept)
    seen, behaviours = set(), []
    for b in r.cases:
        k = json.dumps(b[:-1], sort_keys=True)
        if k not in seen:
            seen.add(k)
            behaviours.append(b)
    ck.states += r.distinct
    ck.transitions += r.generated
    btable = write_cases(ck, behaviours[: q(ck, 800, 8000)], "behaviours.ndjson")
    ev = ck.trace("session", "session", ["-in", btable], "TraceCodec", "TraceCodec.cfg", ["InvC14"],
                  nontrivial=lambda e: e.get("act") == "Recv")
    ck.replayed += min(len(behaviours), q(ck, 800, 8000))
    ck.extra["session_behaviours_replayed"] = min(len(behaviours), q(ck, 800, 8000))
    if ck.violations:
        return
    # ... and under SECS-II transactions: HsmsApp (T3/T6/T7 time-outs, S9Fx, SxF0), model-checked incl. liveness, replayed
    _app_stage(ck, ["InvC14"], exhaustive=True)
    ck.assumptions += ["the harness compares the two session-id bytes with its loop variable when summarising the session-id sweep"]


# ---------------------------------------------------------------------------------------------- C16 / C09 / C12
ITEMS_NOTE = ("the projection (zz_verif.go) is trusted to report the stored representation; float texts and roundings "
              "come from Go's strconv / float32 conversion in the harness")


@check("C16", design_ref="4 C16",
       technique="TLC model checking that the specification's variable list is the sequence of names in the printer model's text (lexer model) on a bounded scope; those messages replayed through the real factories, Variables() and String(); TLA+ item algebra (Vars, Size, encodable) as oracle in trace validation of all four observers of random templates and messages",
       text="Items.tla defines the variable list, size and encodability of an item tree declaratively; every recorded Variables(), Size(), "
            "ToBytes() and String() of random templates (variables in every position, nested ellipses) and of messages built on them is "
            "checked by TLC against the representation-level projection: each name once, in the order of the words of the printed form, bytes "
            "iff no variable (and, for messages, decided wait bit and session id), size = number of elements.",
       note=ITEMS_NOTE + "; the order clause is checked on the real printed text (words between blanks and angle brackets), independent of the printer model")
def c16(ck):
    ck.rule.append("random item trees to depth 4 (all 14 formats, list-level variables, array variables, ASCII variables with bounds, "
                   "numbered ellipses) and messages on them; non-trivial = has at least one variable; distinct by projection")
    # model stage: on every message of MCPrintParse's scope the specification's variable list is the sequence of names the lexer
    # model finds in the printer model's text, without repetition, and the item has bytes iff that sequence is empty; TLC -> Go: those
    # messages built with the real factories - the real Variables() is the specification's list and what the real text shows
    ck.rule.append("model: MCPrintParse/VarsPrinted - Vars(item) = the Variable and Ellipsis tokens of the printed form, in order, no name twice, "
                   "bytes iff none; TLC -> Go: every 8th (thorough: 16th of a fifteen times larger scope) of those messages built with the real factories")
    r = ck.model("MCPrintParse", "MCPrintParse", "MCPrintParse_%s.cfg" % ck.tier, timeout=q(ck, 600, 3000))
    if not r.cases:
        raise ToolError("MCPrintParse emitted no cases")
    table = write_cases(ck, r.cases, "ppcases.ndjson")
    ev = ck.trace("vars-replay", "pp-replay", ["-in", table, "-n", q(ck, 8, 16)], "TraceSml", "TraceSml.cfg", ["InvC16x"],
                  nontrivial=lambda e: len(e.get("vars", [])) > 0, key=SML_KEY)
    ck.replayed += len(ev)
    if ck.violations:
        return
    ck.trace("snap", "snap", ["-n", q(ck, 1500, 15000)], "TraceItems", "TraceItems.cfg", ["InvC16"], agree=["InvAgreeC16"],
             nontrivial=lambda e: len(e.get("vars", [])) > 0, key=lambda e: json.dumps(e.get("abs"), sort_keys=True))
    ck.assumptions.append(ITEMS_NOTE)


@check("C09", design_ref="4 C09",
       technique="TLA+ declarative substitution Subst as oracle; trace validation of real FillVariables (once, in random steps) against direct construction",
       text="Items.tla defines substitution and its refusal condition; for random ellipsis-free templates, random assignments (with unmentioned "
            "variables, unknown keys and out-of-domain values) and random ordered partitions into up to four successive fills, TLC checks that "
            "filling once, filling in steps and constructing directly give the same projection, printed form, bytes, variable list and size, "
            "equal to Subst, and that refusals coincide with the specification's domain rule."
            " Fills through an ellipsis (counts and values in one call and in two) are judged against Subst(Ellipsis!Spec(t, counts), values), renames against the rule that names stay distinct.",
       note=ITEMS_NOTE)
def c09(ck):
    ck.rule.append("random templates to depth 4 x random assignments x random splits into 1..4 fills; about one case in five carries an "
                   "out-of-domain value; non-trivial = template has a variable that sigma mentions; distinct by (template, sigma)")
    ck.model("MCFill", "MCFill", "MCFill.cfg", timeout=900)
    # one-call fills of a repeat marker together with a list that is live elsewhere, in a process of their own
    ck.rule.append("fillself (isolated worker): 3 templates x 3 kinds of live list (own variable, second parent, the template itself) x counts "
                   "0..2, with and without a key for the brought variable: returns, equals the two-step fill, changes nothing that existed")
    ck.trace("fillself", "fillself", ["-n", q(ck, 150, 1500)], "TraceItems", "TraceItems.cfg", ["InvC09s"], worker=True,
             nontrivial=lambda e: e.get("ev") == "fillself", key=lambda e: json.dumps([e.get("how"), e.get("n"), e.get("withkey"), e.get("case", 0) % 9]))
    if ck.violations:
        return
    ck.trace("fill", "fill", ["-n", q(ck, 1500, 12000)], "TraceItems", "TraceItems.cfg", ["InvC09"],
             nontrivial=lambda e: len(e.get("tmpl", {}).get("vars", [])) > 0,
             key=lambda e: json.dumps([e.get("tmpl", {}).get("abs"), e.get("sigma")], sort_keys=True))
    if ck.violations:
        return
    # through an ellipsis: repeat counts and values for the generated names, in one call and in two
    ck.rule.append("fillell: random templates with ellipses (half of them with names of the generated shape, v next to v[0]) x counts 0..3 x "
                   "values for the names after expansion, once and counts-then-values, against Subst(Ellipsis!Spec(t, counts), values)")
    ck.trace("fillell", "fillell", ["-n", q(ck, 600, 6000)], "TraceItems", "TraceItems.cfg", ["InvC09"],
             nontrivial=lambda e: len(e.get("cnt", [])) > 0,
             key=lambda e: json.dumps([e.get("tmpl", {}).get("abs"), e.get("cnt"), e.get("sigma")], sort_keys=True))
    ck.assumptions.append(ITEMS_NOTE)


@check("C12", design_ref="4 C12",
       technique="TLC model checking that the TLA+ domain rules (bignum layer) coincide with 'the two's-complement image reads back as the value' for every integer format on a boundary scope; those rules as oracle in trace validation of real factory calls and fills at and beyond every boundary in every accepted Go type",
       text="The specification states, with its own unbounded arithmetic, which mathematical values each format holds, which names, ellipsis "
            "placements, ASCII bounds and message headers are valid; every factory is called with values at, next to and far beyond every "
            "power-of-two boundary in every Go integer type that can hold them, with boundary floats, binary strings, names, bounds and headers; "
            "TLC checks refusal iff out of domain, and that stored, printed and encoded values equal the mathematical value passed.",
       note=ITEMS_NOTE + "; rounding of a Go float to F4/F8 is delegated to Go's conversion")
def c12(ck):
    # model stage: the domain rule the trace checks use says the same as the encoding (in the domain of a w-byte format iff the
    # two's-complement image in w bytes reads back as the value itself), domains are nested, floats are in the domain iff finite
    ck.rule.append("model: MCCtor - +-(2^k + d), k in 0..65, d in -2..2, in all 8 integer formats: ElemInDomain = no wrap-around; float "
                   "patterns of every exponent: in the domain iff finite")
    ck.model("MCCtor", "MCCtor", "MCCtor.cfg", timeout=600)
    ck.rule.append("each boundary value 2^k-2..2^k+1 (k in 7,8,15,16,31,32,63), signed and unsigned, x 10 Go integer types x 11 numeric "
                   "formats, first or second position, also through FillVariables; random 64-bit values; 24 boundary floats as float64/float32; "
                   "binary strings; ASCII strings; 23 names x 6 positions; 10 bound pairs; 200 message headers; non-trivial = every event; "
                   "distinct by content")
    ck.trace("ctor", "ctor", ["-n", q(ck, 600, 20000)], "TraceItems", "TraceItems.cfg", ["InvC12"])
    ck.assumptions.append(ITEMS_NOTE)


# ---------------------------------------------------------------------------------------------- C10
@check("C10", design_ref="4 C10, App. B",
       technique="TLC model checking that a TLA+ transcription of the fillState machine equals a declarative definition of expansion; TLC cases replayed through real FillVariables; trace validation of results and of fillState hook events",
       text="Ellipsis.tla holds the documented semantics (Expand, renumbering) and, next to it, the code's fillState machine with its step log. "
            "TLC checks machine = semantics, unique names and a balanced dimension stack for every template of a bounded scope and every partial "
            "or total assignment; a sample of those cases and seeded random templates (nesting to depth 5, counts 0..4, unknown ellipsis keys) "
            "are run through the real ListNode.FillVariables; TLC compares the result with the semantics, re-fills generated names "
            "individually, and compares the recorded hook events step by step with the machine's log.",
       note=ITEMS_NOTE + "; declared freedom: exactly one remaining ellipsis may be named '...' or '...[0]' (the code over-counts remaining ellipses)")
def c10(ck):
    ck.rule.append("model: lists of <= 2 leaves (5 leaf kinds) nested one level, ellipsis at any legal position, all partial/total assignments of "
                   "counts 0..1 (quick) / 0..2 (thorough); replay: a sample of those; traces: random templates with nested ellipses; "
                   "non-trivial = at least one ellipsis filled with n >= 1; distinct by (template, counts)")
    r = ck.model("MCEllipsis", "MCEllipsis", "MCEllipsis_%s.cfg" % ck.tier, timeout=q(ck, 900, 6000))
    table = write_cases(ck, r.cases, "ellcases.ndjson")
    nt = lambda e: any(c.get("n", 0) >= 1 for c in e.get("cnt", []))
    key = lambda e: json.dumps([e.get("tmpl", {}).get("abs"), e.get("cnt")], sort_keys=True)
    ev = ck.trace("replay", "ell-replay", ["-in", table], "TraceEllipsis", "TraceEllipsis.cfg", ["InvC10"], agree=["InvAgreeC10"],
                  nontrivial=nt, key=key)
    ck.replayed += len(ev)
    if ck.violations:
        return
    evs = ck.trace("ell", "ell", ["-n", q(ck, 1500, 10000)], "TraceEllipsis", "TraceEllipsis.cfg", ["InvC10"], agree=["InvAgreeC10"],
                   nontrivial=nt, key=key)
    # which steps of the fill machine the real runs took (vacuity guard: all four, and a re-used dimension slot)
    ops, reuse, maxdim = {}, 0, 0
    for e in evs:
        for h in e.get("hooks", []):
            ops[h["op"]] = ops.get(h["op"], 0) + 1
            maxdim = max(maxdim, h["dim"])
            if h["op"] == "growDimension" and h["dim"] < len(h["idx"]):
                reuse += 1
    ck.extra["fill_machine_steps_observed"] = dict(ops, dimension_slot_reused=reuse, deepest_dimension=maxdim)
    if not ck.violations and (len(ops) < 4 or reuse == 0):
        raise ToolError("the random templates did not exercise every step of the fill machine: %s" % ops)
    ck.assumptions.append(ITEMS_NOTE)


# ---------------------------------------------------------------------------------------------- C11 / C18
def _history_checks(ck, inv):
    ck.model("Message", "Message", "Message_%s.cfg" % ck.tier, timeout=q(ck, 300, 3000))
    # TLC -> Go: behaviours of the pool model executed through the real API
    r = ck.tlc("Message", "Message_sim.cfg", workers=1, simulate="num=%d" % q(ck, 600, 2500), extra=["-depth", "7", "-seed", str(ck.seed)])
    if r.error and not r.cases:
        raise ToolError("Message simulation failed: %s" % r.error)
    # (the history is printed for every successor generated at the last step: one behaviour per simulation run is kept)
    seen, behaviours = set(), []
    for b in r.cases:
        k = json.dumps(b[:-1], sort_keys=True)
        if k not in seen:
            seen.add(k)
            behaviours.append(b)
    behaviours = behaviours[: q(ck, 600, 6000)]
    btable = write_cases(ck, behaviours, "msg-behaviours.ndjson")
    ck.trace("replay", "msg-replay", ["-in", btable], "TraceMessage", "TraceMessage.cfg", [inv],
             nontrivial=lambda e: e.get("ev") == "step" and e.get("res", {}).get("outcome") in ("new", "same"),
             key=lambda e: json.dumps([e.get("op"), e.get("res"), e.get("dig")], sort_keys=True))
    ck.replayed += len(behaviours)
    if ck.violations:
        return
    ck.trace("hist", "hist", ["-n", q(ck, 150, 400)], "TraceMessage", "TraceMessage.cfg", [inv],
             nontrivial=lambda e: e.get("ev") == "step" and e.get("res", {}).get("outcome") in ("new", "same"),
             key=lambda e: json.dumps([e.get("op"), e.get("res"), e.get("dig")], sort_keys=True))
    ck.assumptions += ["digests are SHA-1 of the JSON of all observers of an object, computed by the harness",
                       ITEMS_NOTE]


@check("C11", design_ref="4 C11, App. I",
       technique="TLC model checking of an append-only pool model with environment scribble actions; trace validation of random real API histories with in-place mutation of every argument and returned slice",
       text="Message.tla models producers as appends to a pool and the caller's mutations as environment actions; TLC checks the action property "
            "'no existing pool entry changes' over all behaviours of the bounded model. Real histories (40 calls quick / 120 thorough over a growing "
            "pool with shared items: factories, list construction from shared items, fills, SetWaitBit, SetSessionIDAndSystemBytes, observers, "
            "decoding) are recorded; after every call the harness overwrites every slice/map it passed in or got back and re-observes every live "
            "object; TLC checks that every earlier object's digest is unchanged at every step.",
       note="observation = String, ToBytes, Variables, Size, all header accessors and the representation-level projection, hashed by the harness")
def c11(ck):
    ck.rule.append("model: pool <= 3 (quick) / 4 (thorough) messages over header corner values; traces: random histories; non-trivial = a step "
                   "that produced or returned an object; distinct by (op, result, digests)")
    _history_checks(ck, "InvC11")


@check("C18", design_ref="4 C18, App. I",
       technique="TLC model checking of per-producer frame conditions and validity rules on the pool model; trace validation of real producer calls against the same producer functions",
       text="MessageOps.tla defines what SetWaitBit, SetSessionIDAndSystemBytes, FillVariables and the factories compute, field by field, and the "
            "validity rules; TLC checks the frame conditions and RepOK on all behaviours of the bounded model, and then, on real histories, that "
            "every produced message equals the specification's record in every field (so all unnamed fields are carried over), is refused exactly "
            "when the rules say so, and that SetWaitBit on a decided message returns an equal message.",
       note="arguments include rejected ones (session id -2, 65536; W on an even function; system bytes of length 0..6); the item tree after "
            "FillVariables is compared with Items!Subst (ellipsis-free templates)")
def c18(ck):
    ck.rule.append("as C11; every producer call of the histories is judged field by field; fills through an ellipsis (counts and "
                   "values for the generated names, also names with an index of their own) through a message against the same fill of the item")
    _history_checks(ck, "InvC18")
    if ck.violations:
        return
    ck.trace("fillell", "fillell", ["-n", q(ck, 600, 6000)], "TraceItems", "TraceItems.cfg", ["InvC18e"],
             nontrivial=lambda e: len(e.get("cnt", [])) > 0,
             key=lambda e: json.dumps([e.get("tmpl", {}).get("abs"), e.get("cnt"), e.get("sigma")], sort_keys=True))


# ---------------------------------------------------------------------------------------------- SML family
SML_NOTE = ("non-ASCII input is classified (space / letter / digit / other / invalid byte) by Go's unicode and utf8 packages in the harness; "
            "decimal -> binary float conversion is an oracle (strconv.ParseFloat per number spelling); diagnostic wording is never compared with the specification")
SML_KEY = lambda e: json.dumps(e.get("text") or e.get("string") or [e.get("r1", {}).get("text"), e.get("r2", {}).get("text")] or e.get("head"))


def _sml_models(ck, which):
    if "lexer" in which:
        ck.model("MCLexer", "MCLexer", "MCLexer_%s.cfg" % ck.tier, timeout=q(ck, 600, 3000))
    if "layout" in which:
        ck.model("MCLayout", "MCLayout", "MCLayout_%s.cfg" % ck.tier, timeout=q(ck, 600, 6000))
    if "concat" in which:
        ck.model("MCConcat", "MCConcat", "MCConcat.cfg", timeout=600)
    if "printparse" in which:
        ck.model("MCPrintParse", "MCPrintParse", "MCPrintParse_%s.cfg" % ck.tier, timeout=q(ck, 600, 3000))


def _sml_enum(ck, specs, props, agree=("InvAgreeParse",)):
    """co-enumeration for SML: every word sequence of the given scopes through the real parser, every result judged by TLC
    against the lexer/parser model (one trace per scope list, at most ~40 k events each)"""
    total = 0
    for k, spec in enumerate(specs):
        evs = ck.trace("enum%d" % k, "sml-enum", ["-arg", spec], "TraceSml", "TraceSml.cfg", list(props), agree=list(agree),
                       nontrivial=lambda e: len(e.get("text", [])) > 5, key=SML_KEY, timeout=3000)
        total += len(evs)
        if ck.violations:
            break
    ck.extra["sml_co_enumeration"] = dict(scopes=specs, texts=total, vocabulary=38, small_vocabulary=13)
    return total


@check("C04", design_ref="4 C04, App. G",
       technique="TLC model checking that the TLA+ parser model inverts the TLA+ printer model on a bounded scope; TLC-enumerated messages replayed through the real factories, printer and parser; trace validation of real String() -> sml.Parse round trips of random expressible messages and of every message of accepted texts",
       text="For seeded random messages expressible in SML (every ASCII code in strings, boundary numbers, shortest-form floats, ASCII variables with "
            "all bound forms, nested numbered ellipses, adversarial names) and for every message the real parser returns for accepted texts, TLC checks "
            "that parsing the real printed form yields exactly one message, silently, with the same projection, variables, printed form (fixed point) "
            "and completed bytes; model agreement: String() equals SmlPrinter character for character and the re-parse equals SmlParser.",
       note=SML_NOTE + "; 'expressible' = ellipses numbered in order of appearance, variable names that are not type keywords, names the header lexer reads as one name")
def c04(ck):
    ck.rule.append("model: MCPrintParse - every message of a bounded scope (ASCII literals over 10 awkward characters up to length 2 / 4, boundary "
                   "numbers, all ASCII-variable bound forms, variables, numbered ellipses, lists to depth 2, header corner cases and adversarial "
                   "names) printed by the printer model and parsed by the parser model; traces: random expressible messages (3 of 4 cases) and "
                   "messages of accepted plausible texts (1 of 4); non-trivial = message has an item; distinct by printed form")
    r = ck.model("MCPrintParse", "MCPrintParse", "MCPrintParse_%s.cfg" % ck.tier, timeout=q(ck, 600, 3000))
    if not r.cases:
        raise ToolError("MCPrintParse emitted no cases")
    table = write_cases(ck, r.cases, "ppcases.ndjson")
    # TLC -> Go: the model's messages built with the real factories, printed and parsed back (quick: every 8th, thorough: every 16th of a fifteen times larger scope)
    ev = ck.trace("replay", "pp-replay", ["-in", table, "-n", q(ck, 8, 16)], "TraceSml", "TraceSml.cfg", ["InvC04", "InvC04x"], agree=["InvAgreeC04"],
                  nontrivial=lambda e: e.get("orig", {}).get("item", {}).get("f") != "none", key=SML_KEY)
    ck.replayed += len(ev)
    if ck.violations:
        return
    ck.trace("pp", "pp", ["-n", q(ck, 1200, 12000)], "TraceSml", "TraceSml.cfg", ["InvC04"], agree=["InvAgreeC04"],
             nontrivial=lambda e: e.get("orig", {}).get("item", {}).get("f") != "none", key=SML_KEY)
    ck.assumptions.append(SML_NOTE)


@check("C05", design_ref="4 C05, App. E",
       technique="TLC model checking that the TLA+ parser model (unbounded-integer layer) agrees with a declarative bit-level statement of what integer literals denote, on every spelling of a bounded scope; those spellings replayed through the real parser; trace validation of real parses of a systematic literal x type x position matrix",
       text="SmlParser.tla states, with its own arithmetic, what every literal denotes for every item type (bases 2/8/10/16 in either case, signs, ranges "
            "of all widths, character codes, quoted strings as the characters between the quotes, T/F) and when it is an error. Every one of ~360 "
            "boundary literals is placed alone, first and second in an item of each of the 13 non-list types (plus random texts); TLC checks that the "
            "real parser reports an error iff the specification does and otherwise returns exactly the denoted values in items of the written types."
            " Every sequence of up to 2/3 words of a 38-word vocabulary in item position, every Unicode code point in five literal contexts (interval summaries), and 23 literals in neighbouring items of different types are judged against the same model.",
       note=SML_NOTE + "; declared freedoms: a leading-zero integer (010) is read as octal by integers and decimal by floats; +5 is refused for unsigned items - both as the code does today, the drivers include them and the specification follows the code")
def c05(ck):
    ck.rule.append("13 types x about 360 literals (every range boundary of every width and its neighbours in bases 2, 8, 10, 16 and the 0-prefixed octal form, both signs; floats; strings; codes; T/F; variables) x 3 positions x random letter case, plus random plausible texts; non-trivial = every event; distinct by text")
    # model stage: the parser model against a second, declarative statement of what integer literals denote (from the bits of the value)
    ck.rule.append("model: MCLiteral - 36 magnitudes (0, 1, 7, 0xABCDEF, and 2^(w-1)-1, 2^(w-1), 2^(w-1)+1, 2^w-1, 2^w, 2^w+1, 1010.. for w = 8, 16, 32, 64) "
                   "spelled in bases 2, 8 (0o and bare 0), 16 with both prefix cases, both hex letter cases, leading zeros (thorough), all three signs, "
                   "and 16 decimal values, in items of U1-U8, I1-I8, B and A (alone; thorough: also behind another value): the parser model accepts "
                   "exactly what fits the type and stores exactly the value the bits give; TLC -> Go: every one of those texts through the real parser")
    r = ck.model("MCLiteral", "MCLiteral", "MCLiteral_%s.cfg" % ck.tier, timeout=q(ck, 600, 3000))
    if not r.cases:
        raise ToolError("MCLiteral emitted no cases")
    table = write_cases(ck, r.cases, "litcases.ndjson")
    ev = ck.trace("lit-replay", "lit-replay", ["-in", table, "-n", 1], "TraceSml", "TraceSml.cfg", ["InvC05x", "InvC05"], agree=["InvAgreeParse"], key=SML_KEY)
    ck.replayed += len(ev)
    if ck.violations:
        return
    ck.trace("lit", "lit", ["-n", q(ck, 500, 20000)], "TraceSml", "TraceSml.cfg", ["InvC05"], agree=["InvAgreeParse"], key=SML_KEY)
    if ck.violations:
        return
    # every sequence of words in item position: type word, size, values of every class, closing
    ck.rule.append("co-enumeration: every sequence of <= 2 (quick) / 3 words of a 38-word vocabulary and <= 3 / 4 words of a 13-word one "
                   "between '<' and '>' of an item")
    _sml_enum(ck, q(ck, ["item:full:2,item:small:3"], ["item:full:3", "item:small:4"]), ["InvC05"])
    if ck.violations:
        return
    # every code point outside ASCII inside a string, a number, a character code, a boolean and a float
    ck.rule.append("code points: U+0080..U+10FFFF (quick: the basic plane completely, every 61st beyond) in 5 literal contexts, as intervals "
                   "of constant outcome; the texts at the ends and the middle of every interval against the parser model")
    ck.trace("cp", "cp-sweep", [], "TraceSml", "TraceSml.cfg", ["InvC05", "InvCp"], agree=["InvAgreeParse"], consts_extra={"ChunkSize": 1})
    ck.assumptions.append(SML_NOTE)


@check("C06", design_ref="4 C06, App. D, E",
       technique="TLC model checking of the lexer machine (termination measure, one token per step, positions inside the text); trace validation of real parses of token soups and, in an isolated worker, of hostile inputs",
       text="TLC checks on the lexer machine, for every input of a bounded scope from both start states, that each stateFn invocation strictly decreases a "
            "termination measure, emits at most one token, and places every token inside the text. Real sml.Parse is run on seeded token soups and "
            "plausible texts and, in an isolated worker under RLIMIT_AS, on hostile inputs (absurd sizes, duplicated huge ASCII variables, exotic white "
            "space, invalid UTF-8, 64 KiB tokens, deep nesting); TLC checks: returned normally, all-or-nothing, every diagnostic positioned inside the "
            "input, and - when nothing is reported - exactly the specification's messages in order. Lexer hook streams (tokens and state steps) are "
            "validated against the machine step by step."
            " Every sequence of up to 2/3 words of a 38-word vocabulary in five contexts is run through the real parser and judged against the model (co-enumeration).",
       note=SML_NOTE + "; running time is not judged (watchdog overrun = exit 2)")
def c06(ck):
    ck.rule.append("model: inputs <= 3 (quick) / 4 symbols over 26 classes x 2 start states; traces: token soups and plausible texts, lexer hook "
                   "streams, ~385 hostile inputs in a worker; non-trivial = text longer than 5 chars; distinct by text")
    _sml_models(ck, ["lexer"])
    evs = ck.trace("soup", "soup", ["-n", q(ck, 2500, 25000)], "TraceSml", "TraceSml.cfg", ["InvC06"], agree=["InvAgreeParse"],
                   nontrivial=lambda e: len(e.get("text", [])) > 5, key=SML_KEY)
    ck.extra["soup_outcomes"] = dict(accepted=sum(1 for e in evs if e.get("msgs")), rejected=sum(1 for e in evs if e.get("errs")),
                                     with_warnings=sum(1 for e in evs if e.get("warns")),
                                     several_errors=sum(1 for e in evs if len(e.get("errs", [])) > 1),
                                     several_messages=sum(1 for e in evs if len(e.get("msgs", [])) > 1))
    if ck.violations:
        return
    # co-enumeration: every short word sequence in five contexts (behind a header, in a list, in an item, as header, behind a message)
    ck.rule.append("co-enumeration: every sequence of <= 2 (quick) / 3 words of a 38-word vocabulary in 6 contexts, and <= 3 / 4 words of a "
                   "13-word one in list position")
    _sml_enum(ck, q(ck, ["top:full:2,list:full:2,item:full:2,head:full:2,two:full:2,open:full:2,list:small:3,open:small:3"],
                    ["top:full:3", "list:full:3", "head:full:3", "two:full:3", "open:full:3", "list:small:4,open:small:4"]), ["InvC06"])
    if ck.violations:
        return
    ck.trace("lex", "lex", ["-n", q(ck, 1500, 15000)], "TraceSml", "TraceSml.cfg", [], agree=["InvAgreeLex"],
             nontrivial=lambda e: len(e.get("text", [])) > 5, key=SML_KEY)
    ck.trace("hostile", "hostile", [], "TraceSml", "TraceSml.cfg", ["InvC06h"], worker=True,
             nontrivial=lambda e: e.get("ev") == "hostile", key=lambda e: json.dumps([e.get("ev"), e.get("head"), e.get("len")]))
    ck.assumptions.append(SML_NOTE)


@check("C08", design_ref="4 C08, App. J",
       technique="TLC model checking that any layout of a token list lexes and parses like the plain layout; trace validation of real parses of two layouts of one token list, with positions mapped through the lexer model",
       text="'The same tokens in another layout' is defined by the lexer model (equal token types and values, numbers up to letter case, comments "
            "dropped). TLC checks on the model that every assignment of separators/comments to the gaps of every token list in scope leaves the "
            "token shape and the parse unchanged. The real parser is run on a plain and a re-laid-out rendering (random blanks, tabs, LF, CRLF, "
            "comments in several scripts and with hostile trailing bytes, case flips of keywords, type names, number prefixes) of seeded token lists, "
            "valid and damaged; TLC checks identical messages and that each diagnostic keeps its text and sits at the same token in both."
            " A systematic sweep gives every single gap of fixed and seeded token lists every separator (including two- and three-byte blanks and comments glued to names ending in each printable character) and every case-insensitive token both letter cases.",
       note=SML_NOTE)
def c08(ck):
    ck.rule.append("model: token lists <= 2 (quick) / 3 words from a 20-word vocabulary x 6 separators per gap; traces: seeded token lists "
                   "(valid, damaged, printed forms) x 2 layouts; non-trivial = at least 4 tokens; distinct by the pair of texts")
    _sml_models(ck, ["layout"])
    ck.trace("layout", "layout", ["-n", q(ck, 1200, 10000)], "TraceSml", "TraceSml.cfg", ["InvC08"], agree=["InvAgreeC08"],
             nontrivial=lambda e: len(e.get("r1", {}).get("text", [])) > 12, key=SML_KEY)
    if ck.violations:
        return
    # systematic: every single gap of fixed and seeded token lists x every separator, every single token's letter case
    ck.rule.append("sweep: 6 fixed + 6 (quick) / 60 seeded token lists x every gap x 13 separators (blank, tab, LF, CRLF, CR, comments "
                   "with hostile contents, and the non-separators nothing and VT), and each case-insensitive token in upper and lower case")
    ck.trace("gaps", "layout-enum", ["-n", q(ck, 6, 60)], "TraceSml", "TraceSml.cfg", ["InvC08"], agree=["InvAgreeC08e"],
             nontrivial=lambda e: len(e.get("r1", {}).get("text", [])) > 12,
             key=lambda e: json.dumps([e.get("r1", {}).get("text"), e.get("r2", {}).get("text")]))
    ck.assumptions.append(SML_NOTE)


@check("C15", design_ref="4 C15",
       technique="TLC model checking that the TLA+ parser model (bounds as unbounded integers, Atoi saturation) accepts a sized literal iff its count lies within the bounds and otherwise reports at the declaration, for every case of a bounded scope; those cases replayed through the real parser; trace validation of a complete small-number sweep of size declarations and of ASCII-variable fills",
       text="All four declaration forms x 14 item types x all (lower, upper, actual) triples in 0..3, with and without inner blanks, plus huge and "
            "overflowing bounds, are parsed by the real parser; TLC checks accept/reject and the error position (the declaration) against the "
            "specification. ASCII variables with every bound form are parsed, printed back (the specification re-parses the real printed form) and "
            "filled with strings of length 0..9; TLC checks refusal iff the length lies outside the bounds the grammar reads.",
       note=SML_NOTE)
def c15(ck):
    ck.rule.append("4 forms x 14 types x lo,hi,n in 0..3 (1568 texts) + 168 huge-bound texts + 14 ASCII-variable declarations x 10 fill lengths; "
                   "non-trivial = every event; distinct by text")
    ck.exhaustive = True
    # model stage: the parser model against the statement of C15 on the numbers themselves; every case then through the real parser
    ck.rule.append("model: MCSizes - 14 types x 4 declaration forms x bounds 0..3 (thorough 0..5), written with and without a leading zero and inner "
                   "blanks, x counts 0..4 (0..6): accepted iff the count lies within the bounds, otherwise exactly one error at the declaration; "
                   "ASCII variables of every form keep their bounds through the printer model; TLC -> Go: every literal case through the real parser")
    r = ck.model("MCSizes", "MCSizes", "MCSizes_%s.cfg" % ck.tier, timeout=q(ck, 600, 3000))
    if not r.cases:
        raise ToolError("MCSizes emitted no cases")
    table = write_cases(ck, r.cases, "sizecases.ndjson")
    ev = ck.trace("size-replay", "lit-replay", ["-in", table, "-n", 1], "TraceSml", "TraceSml.cfg", ["InvC15x", "InvC15"], agree=["InvAgreeParse"], key=SML_KEY)
    ck.replayed += len(ev)
    if ck.violations:
        return
    ck.trace("sizes", "sizes", [], "TraceSml", "TraceSml.cfg", ["InvC15", "InvC15v"], agree=["InvAgreeParse"], key=SML_KEY)
    ck.assumptions.append(SML_NOTE)


@check("C19", design_ref="4 C19",
       technique="TLC model checking of the parser model on concatenations of message texts; trace validation of real parses of parts and of their concatenation",
       text="TLC checks on the model, for all pairs and triples from an adversarial set of message texts (reused variable names, ellipses in each, "
            "rejected members) and every separator allowed after a terminator, that the parse of the concatenation is the concatenation of the "
            "parses. The real parser is run on 2-4 accepted texts (reusing names and ellipsis numbers) and on their concatenation with random "
            "separators; TLC checks that the whole is accepted and returns the parts' messages in order, each identical to the part parsed alone.",
       note=SML_NOTE + "; parts end with their terminator (an unterminated trailing comment would swallow the next message)")
def c19(ck):
    ck.rule.append("model: 8 texts ^ 2..3 x 7 separators; traces: 2-4 accepted texts joined by random separators; non-trivial = every event; distinct by whole text")
    _sml_models(ck, ["concat"])
    ck.trace("concat", "concat", ["-n", q(ck, 600, 5000)], "TraceSml", "TraceSml.cfg", ["InvC19"], agree=["InvAgreeC19"],
             key=lambda e: json.dumps(e.get("whole", {}).get("text")))
    ck.assumptions.append(SML_NOTE)


# ---------------------------------------------------------------------------------------------- C17
@check("C17", design_ref="4 C17",
       technique="TLC enumeration of the concurrent configurations of a TLA+ model of overlapping calls on shared immutable values; each configuration executed by real goroutines in a -race build, results validated by TLC",
       text="Concurrency.tla models calls as Start/End pairs with read footprints on shared objects and write footprints on locations of their own; TLC "
            "checks that no reachable configuration has conflicting footprints and enumerates all 1,792 configurations (which of 10 operations overlap on "
            "which of 3 shared objects, up to 3 goroutines). Every configuration is executed for real - goroutines released from a barrier, several "
            "rounds, fresh variable names in every call so that no cache is warm - in a race-detector build; a race report aborts the worker. The "
            "same calls are then executed alone and TLC checks that every concurrent result equals the solo result."
            " Reference answers come from an untouched twin of the shared objects, which are asked again afterwards; one configuration per multiset of operations also runs as the very first library calls of a fresh process; eight goroutines hammer small objects that hold one wide list at three depths in tight loops.",
       note="the Go race detector (happens-before based: one execution of a configuration exposes a race for every schedule of it, because the library "
            "has no synchronisation that could order the accesses) and the worker's exit status are instruments; the footprints are the model's "
            "assumption about the code, checked by the detector")
def c17(ck):
    ck.rule.append("all multisets of 2..3 applicable (operation, shared object) calls x 4 (quick) / 25 (thorough) rounds on objects nothing has "
                   "touched before, plus one configuration per multiset of operations as the first calls of a fresh process; non-trivial = every "
                   "configuration; distinct by the multiset of calls")
    r = ck.model("MCConcurrency", "MCConcurrency", "MCConcurrency.cfg", timeout=600)
    seen, cases = set(), []
    for c in r.cases:
        k = json.dumps(c, sort_keys=True)
        if k not in seen:
            seen.add(k)
            cases.append(c)
    if len(cases) < 1000:
        raise ToolError("too few concurrent configurations enumerated: %d" % len(cases))
    table = write_cases(ck, cases, "conc-table.ndjson")
    ck.exhaustive = True
    # eight goroutines in tight loops on small objects that hold one wide list at three depths, answers against a twin
    ck.trace("hammer", "conc-hammer", ["-n", q(ck, 400, 4000)], "TraceConc", "TraceConc.cfg", ["InvC17"], worker=True, race=False,
             nontrivial=lambda e: e.get("ev") == "conc", key=lambda e: json.dumps([e.get("ev"), e.get("calls"), "hammer"]),
             consts_extra={"ChunkSize": 1})
    if ck.violations:
        return
    ev = ck.trace("conc", "conc", ["-in", table, "-n", q(ck, 4, 25)], "TraceConc", "TraceConc.cfg", ["InvC17"], worker=True, race=True,
                  nontrivial=lambda e: e.get("ev") == "conc", key=lambda e: json.dumps([e.get("ev"), e.get("calls")]))
    ck.replayed += len(cases)
    if ck.violations:
        return
    # the same, as the very first calls a process makes into the library (state initialised on first use)
    ev = ck.trace("cold", "conc-cold", ["-in", table, "-n", q(ck, 6, 12)], "TraceConc", "TraceConc.cfg", ["InvC17"], worker=True, race=True,
                  nontrivial=lambda e: e.get("ev") == "conc", key=lambda e: json.dumps([e.get("ev"), e.get("calls"), "cold"]))
    ck.extra["cold_start"] = "%d configurations (one per multiset of operations%s), each in a process of its own, %d attempts" % (
        len(ev), "" if ck.tier == "thorough" else ", pairs", q(ck, 6, 12))
    ck.assumptions += ["one execution per configuration and round; schedules are not controlled (the detector does not need them to be)"]
